// C18: a translation unit that instantiates the whole public API with every feature on and uses no
// standard-library facility of its own.  The driver compiles it to an object file and inspects the
// undefined symbols: no allocation function may be referenced.
#define FFSM2_ENABLE_PLANS
#define FFSM2_ENABLE_SERIALIZATION
#define FFSM2_ENABLE_TRANSITION_HISTORY
#define FFSM2_ENABLE_LOG_INTERFACE
#include VERIF_FFSM2_HEADER

namespace {

struct Ctx { int n; };
struct Pay { double d; int i; };
struct Ev { int v; };

using M = ffsm2::MachineT<ffsm2::Config::ContextT<Ctx&>::ManualActivation::PayloadT<Pay>::TaskCapacityN<5>::SubstitutionLimitN<3>>;
struct R; struct A; struct B; struct C;
using FSM = M::Root<R, A, B, C>;

struct Base : FSM::State {
	void entryGuard(GuardControl& c) { if (c.context().n == 7) { c.cancelPendingTransition(); c.changeTo<A>(); } (void) c.pendingTransition(); }
	void exitGuard(GuardControl& c) { if (c.context().n == 8) c.changeWith<B>(Pay{1.0, 2}); }
	void enter(PlanControl& c) { auto p = c.plan(); p.change<A, B>(); p.changeWith<B, C>(Pay{2.0, 3}); (void) c.currentTransition(); }
	void reenter(PlanControl&) {}
	void exit(PlanControl& c) { auto p = c.plan(); for (auto it = p.begin(); it; ++it) { it.remove(); break; } }
	void preUpdate(FullControl& c) { if (c.isActive<A>()) c.succeed(); }
	void update(FullControl& c) { if (c.context().n == 3) c.fail(); c.succeed(c.stateId()); }
	void postUpdate(FullControl& c) { (void) c.request(); (void) c.previousTransitions(); }
	void preReact(const Ev&, FullControl&) {}
	void react(const Ev& e, FullControl& c) { c.changeTo(static_cast<ffsm2::StateID>(e.v % 3)); }
	void postReact(const Ev&, FullControl&) {}
	void query(Ev& e, ConstControl& c) const { e.v += c.stateId(); }
};
struct R : FSM::State {
	void planSucceeded(FullControl& c) { c.changeTo<C>(); }
	void planFailed(FullControl& c) { c.plan().clear(); }
};
struct A : FSM::StateT<Base> {};
struct B : FSM::StateT<Base> {};
struct C : FSM::StateT<Base> {};

struct Log : FSM::Logger {
	using LC = FSM::Logger::Context;
	int n = 0;
	void recordMethod(const LC&, const ffsm2::StateID, const ffsm2::Method) override { ++n; }
	void recordTransition(const LC&, const ffsm2::StateID, const ffsm2::StateID) override { ++n; }
	void recordTaskStatus(const LC&, const ffsm2::StateID, const StatusEvent) override { ++n; }
	void recordCancelledPending(const LC&, const ffsm2::StateID) override { ++n; }
};

}

int verif_allapi(int seed) {
	Ctx ctx{seed};
	Log log;
	FSM::Instance m{ctx, &log};
	m.enter();
	m.update();
	Ev e{seed};
	m.react(e);
	m.query(e);
	m.changeTo<B>();
	m.update();
	m.changeWith<C>(Pay{3.0, 4});
	m.immediateChangeTo<A>();
	m.immediateChangeWith<B>(Pay{4.0, 5});
	m.plan().change<A, C>();
	m.plan().changeWith(0, 1, Pay{5.0, 6});
	m.succeed<A>();
	m.fail(1);
	m.update();
	FSM::Instance::SerialBuffer buf;
	m.save(buf);
	FSM::Instance copy{m};
	copy.load(buf);
	FSM::Instance replica{ctx};
	replica.replayEnter(m.activeStateId());
	replica.replayTransition(1);
	m.attachLogger(nullptr);
	const int r = m.activeStateId() + copy.activeStateId() + replica.previousTransition().destination + (m.isActive() ? 1 : 0) + log.n + e.v;
	replica.exit();
	copy.exit();
	m.exit();
	return r;
}
