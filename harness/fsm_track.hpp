// E1 fsmmon — per-instance shadow model and the trace monitors (one clause = one V(...) call,
// tagged with the property whose statement the clause comes from).
#pragma once

#include "fsm_world.hpp"

namespace mon {

struct World;
extern World* W;

struct Round {
	Req pending;
	bool exitSeen = false, entrySeen = false, rootSeen = false;
	bool cancelled = false;
};

// state of the API call in progress on one instance
struct Step {
	uint8_t op = OP_OBSERVE;
	uint8_t arg = 255;
	int cur0 = -1;
	bool rootIn0 = false;
	size_t evBegin = 0;

	unsigned phaseIdx = 0;
	bool phaseError = false;
	unsigned queryRoot = 0, queryState = 0;

	uint8_t planPhase = 0;            // 0 closed, 1 window open, 2 outcome delivered (clear pending)
	bool planWindowUsed = false;      // the plan step happens once per cycle
	PlanVec planAtStep;
	std::vector<Task> fires;          // from the log
	bool firesFromLog = false;
	unsigned outcomes = 0;
	Method outcome = Method::NONE;
	bool curReportedSuccess = false, curReportedFailure = false, anyFailNow = false, anySuccNow = false;
	bool userClearAfterReport = false, planEditedThisCycle = false;
	long ownFailSeq = -1;   // delivery (to the active state) in which it reported failure itself and no success report followed within that delivery
	bool sawFire = false;

	std::vector<Round> rounds;
	bool roundOpen = false;
	Req survivor;
	bool applyBegun = false, resolved = false;
	unsigned exits = 0, enters = 0, reenters = 0, rootEnters = 0, rootExits = 0;
	int exitSid = -1, enterSid = -1, reenterSid = -1;
	unsigned guardDeliveries = 0;
	bool limitLeftOver = false;
};

struct Inst {
	uint8_t slot = 0;
	Policy policy = POL_CHOOSER;
	cfg::Instance* obj = nullptr;
	bool alive = false;
	const void* ctxExpected = nullptr;

	// C01 pairing automaton
	bool rootIn = false;
	int cur = -1;
	bool dirtyDestroyed = false;

	// shadows
	Req latest;
	PlanVec plan;
	bool tasksAdded = false;
	bool succMay[32] = {}, succMust[32] = {}, failMay[32] = {}, failMust[32] = {};
	Req prevExpected;
	bool prevLenientEmptyOk = false;   // after replayTransition(INVALID): unchanged or empty
	bool loggerAttached = false;
	bool planEditedSinceCompare = false;   // the harness edited the plan since the last comparison that agreed

	Step st;

	// delivery grouping
	bool delOpen = false;
	Method delM = Method::NONE;
	uint8_t delSid = 255;
	std::vector<uint8_t> delOrder;

	// pending log expectations (C16)
	bool logExpectMethod = false;
	Method logM = Method::NONE;
	uint8_t logSid = 255;

	// actual plan as read back at the current observation point
	PlanVec actualPlan;
	bool actualPlanKnown = false;

	uint64_t delSeq = 0;   // running number of the current delivery
	bool lastDelValid = false; Method lastDelM = Method::NONE; uint8_t lastDelSid = 0;   // the delivery before the current one (same API call)

	bool active() const { return cur >= 0; }
	// can the harness observe deliveries to this state?  States with callbacks: always; states that define
	// none: only through the verbose log while a logger is attached
	bool sees(unsigned sid) const {
		if (sid == ROOT) return cfg::HEAD;
		if (sid + cfg::BARE < N) return true;
		return HAS_VERBOSE && loggerAttached;
	}
	bool anySuccMay() const { for (unsigned i = 0; i < N; ++i) if (succMay[i]) return true; return false; }
	bool anyFailMay() const { for (unsigned i = 0; i < N; ++i) if (failMay[i]) return true; return false; }
	void clearStatuses(bool may) { for (unsigned i = 0; i < 32; ++i) { succMust[i] = failMust[i] = false; if (may) succMay[i] = failMay[i] = false; } }
	void clearStatus(unsigned i) { succMay[i] = succMust[i] = failMay[i] = failMust[i] = false; }
};

constexpr bool visibleState(unsigned sid) { return sid == ROOT ? cfg::HEAD : sid + cfg::BARE < N; }

struct World {
	// ---- case state
	Chooser ch;
	vh::Rng aux;
	Profile prof;
	std::vector<Ev> events;
	std::vector<Violation> viols;
	std::array<Inst, 5> inst;
	Inst* cur = nullptr;          // instance whose API call is in progress
	bool probe = false;           // silent query probe in progress
	Req probeRequest;
	bool probeSeen = false;
	const void* curEvent = nullptr;
	uint64_t tagCounter = 0;
	unsigned inUser = 0;          // depth of user code (callbacks / logger) inside an API call
	bool inApi = false;
	bool inLib = false;           // a library function called by the harness is on the stack (allocation accounting, C18)
	bool ownRequest = false, ownReport = false, ownCancel = false;
	unsigned ownLogCount = 0;
	Ev ownLogLast;
	uint64_t caseNo = 0;
	bool stopCase = false;
	uint32_t flags = 0;           // CaseFlag bits of the current case
	Req obsPending;               // pendingTransition() of the guard callback that is about to be recorded
	bool obsPendingKnown = false;
	bool immOwn = false;          // the transition record of an immediate*() call is still to come
	unsigned immCount = 0;

	void (*readPlanHook)(Inst&) = nullptr;   // set by the driver: refresh in.actualPlan from the machine
	// C05 "every reachable machine state": now and then the authority is copied from inside one of its own callbacks
	// (a snapshot taken mid-processing); the driver later runs update()/react()/query() on that copy with only the C05
	// monitors reporting (nothing else is known about such a copy)
	void (*snapshotHook)(Inst&, Method) = nullptr;
	// C16 "attached later, or detached midway": in the toggling logger mode the logger is also attached / detached from
	// inside callbacks, between two deliveries of one call (decided by the aux stream, like every logger decision)
	void (*attachHook)(Inst&, bool) = nullptr;
	void (*saveInCallbackHook)(Inst&) = nullptr;   // C12: save() called from inside a callback (a const observer)
	bool logToggleInCallbacks = false;
	bool snapPending = false;
	bool snapSuccMay[32] = {}, snapFailMay[32] = {}, snapTasksAdded = false;   // what may be outstanding in the authority when the snapshot is taken
	bool inSnapshotCopy = false;                 // the copy constructor of a snapshot is running (it must not call back)
	const char* const* muteAllow = nullptr;      // while set: only violations of the listed properties are reported

	// ---- statistics (whole process)
	vh::Stats stats;
	uint64_t nEvents = 0;

	// ------------------------------------------------------------------
	void V(const char* prop, const std::string& key, const std::string& msg) {
		if (muteAllow) {
			bool allowed = false;
			for (const char* const* p = muteAllow; *p; ++p) if (strcmp(*p, prop) == 0) allowed = true;
			if (!allowed) return;
		}
		if (cfg::BARE && strcmp(prop, "C16") != 0) {
			// configurations with states that define no callback see those states only through the verbose
			// log: an inconsistency there says the record stream and the machine disagree (C16)
			const std::string k2 = std::string("verbose-record-stream-inconsistent|") + prop + "|" + key;
			for (auto& v : viols) if (v.prop == "C16" && v.key == k2) return;
			viols.push_back({"C16", k2, msg});
			return;
		}
		for (auto& v : viols) if (v.prop == prop && v.key == key) return;
		viols.push_back({prop, key, msg});
	}

	std::string tail(size_t n = 40) const {
		std::string s;
		const size_t b = events.size() > n ? events.size() - n : 0;
		for (size_t i = b; i < events.size(); ++i) { s += evStr(events[i]); s += ' '; }
		return s;
	}

	// the event list is bounded (it exists for messages and replay files); comparisons of what two instances ran
	// use this running digest of all non-logger events instead, which never truncates
	uint64_t projHash = 7;
	uint64_t caseHash = 1234567;   // digest of the whole case, logger records and logger attachment excluded (differential runs)
	void push(const Ev& e) {
		if (events.size() < events.capacity()) events.push_back(e);
		++nEvents;
		if (e.kind != EV_LOG && !((e.kind == EV_API_BEGIN || e.kind == EV_API_END) && (e.code == OP_ATTACH || e.code == OP_DETACH))) {
			caseHash = vh::mix(caseHash, (uint64_t(e.kind) << 48) | (uint64_t(e.inst) << 40) | (uint64_t(e.code) << 32) | (uint64_t(e.sid) << 24) | (uint64_t(e.inj) << 16) | (uint64_t(e.a) << 8) | e.b);
			caseHash = vh::mix(caseHash, e.tag & cfg::TAGMASK);
		}
		if (e.kind != EV_LOG) {
			projHash = vh::mix(projHash, (uint64_t(e.kind) << 40) | (uint64_t(e.code) << 32) | (uint64_t(e.sid) << 24) | (uint64_t(e.inj) << 16) | (uint64_t(e.a) << 8) | e.b);
			projHash = vh::mix(projHash, e.tag & cfg::TAGMASK);
		}
	}

	// ------------------------------------------------------------------
	// API boundary

	void apiBegin(Inst& in, uint8_t op, uint8_t a = 255, uint8_t b = 255, uint64_t tag = 0) {
		cur = &in;
		Step& s = in.st;
		s = Step{};
		s.op = op; s.arg = a; s.cur0 = in.cur; s.rootIn0 = in.rootIn;
		Ev e; e.kind = EV_API_BEGIN; e.inst = in.slot; e.code = op; e.a = a; e.b = b; e.tag = tag;
		push(e);
		s.evBegin = events.size();
		in.delOpen = false;
		in.lastDelValid = false;
		in.actualPlanKnown = false;
		if (isActivationOp(op)) in.tasksAdded = false;
		if (op == OP_LOAD && a != 255 && in.cur >= 0) {
			// load() into an active machine drops its request, plan, task reports and history before any callback runs
			in.latest = Req{}; in.plan.clear(); in.clearStatuses(true); in.tasksAdded = false; in.prevExpected = Req{}; in.prevLenientEmptyOk = false;
		}
		inApi = true;
		stats.add2("api_calls", opName(op));
	}

	void apiEnd(Inst& in);   // below

	// ------------------------------------------------------------------
	// sub-event of a delivery (called at the top of every user callback)

	void sub(Inst& in, Method m, uint8_t sid, uint8_t inj) {
		Ev e; e.kind = EV_SUB; e.inst = in.slot; e.code = static_cast<uint8_t>(m); e.sid = sid; e.inj = inj;
		push(e);
		stats.add2("callback_events", mname(m));
		// the state class itself may leave a callback out (CFG_PARTIAL); its injections always define everything
		const unsigned expectSubs = (m == Method::PLAN_SUCCEEDED || m == Method::PLAN_FAILED) ? 1 : cfg::K + (cfg::defines(sid, m) ? 1 : 0);
		if (!in.delOpen || in.delM != m || in.delSid != sid || in.delOrder.size() >= expectSubs) {
			closeDelivery(in);
			// C15 "exactly once": with a state class that omits the callback a delivery consists of the injection's
			// callback alone, so a repeated invocation shows up as the same delivery twice in a row.  Lifecycle and
			// cycle callbacks are never legitimately delivered twice in a row to one state within one API call
			// (guards are: consecutive rounds).
			if (cfg::PARTIAL && in.lastDelValid && in.lastDelM == m && in.lastDelSid == sid && m != Method::ENTRY_GUARD && m != Method::EXIT_GUARD
				&& m != Method::PLAN_SUCCEEDED && m != Method::PLAN_FAILED)
				V("C15", fmt("not-exactly-once|%s|k=%u", mname(m), cfg::K), fmt("%s of state %u was delivered twice in a row within one %s call; %s", mname(m), sid, opName(in.st.op), tail().c_str()));
			// C16: a delivery is announced by exactly one method record, before any user code of it
			if (HAS_LOG) {
				if (in.loggerAttached) {
					if (in.logExpectMethod && in.logM == m && in.logSid == sid) stats.add("c16_deliveries_matched_to_records");
					else {
						if (in.logExpectMethod) flushMethodRecord(in, "another delivery");
						// a record is owed when the state's class defines the callback (always in verbose builds)
						if (cfg::defines(sid, m) || HAS_VERBOSE)
							V("C16", fmt("delivery-without-method-record|%s", mname(m)), fmt("%s of %u delivered with a logger attached but no method record announced it; %s", mname(m), sid, tail().c_str()));
						else stats.add("c16_deliveries_to_injections_only_without_record");
					}
					in.logExpectMethod = false;
				} else if (in.logExpectMethod) flushMethodRecord(in, "delivery without logger");
			}
			in.delOpen = true; in.delM = m; in.delSid = sid; in.delOrder.clear();
			in.delOrder.push_back(inj);
			in.lastDelValid = true; in.lastDelM = m; in.lastDelSid = sid;
			++in.delSeq;
			onDelivery(in, m, sid);
		} else {
			if (in.logExpectMethod) flushMethodRecord(in, "user code of the same delivery");
			in.delOrder.push_back(inj);
		}
	}

	// ------------------------------------------------------------------
	// logger records (C16; transition records not caused by the harness are plan fires, C08)

	void flushMethodRecord(Inst& in, const char* because) {
		if (!in.logExpectMethod) return;
		in.logExpectMethod = false;
		// records for states that define no callbacks (bare states, a headless root) are legitimate in
		// verbose builds, and for the react family in every logging build
		if (!in.sees(in.logSid) || !visibleState(in.logSid)) {
			// non-verbose logging records deliveries to states that define the callback only (the react family and query
			// are function templates in the library's defaults and are recorded for every state)
			const bool templated = in.logM == Method::PRE_REACT || in.logM == Method::REACT || in.logM == Method::POST_REACT || in.logM == Method::QUERY;
			if (HAS_LOG && !HAS_VERBOSE && !templated && in.logSid != ROOT)
				V("C16", fmt("method-record-for-state-without-callback|%s", mname(in.logM)), fmt("non-verbose logging recorded (%u,%s) although the class of state %u defines no callback; %s", in.logSid, mname(in.logM), in.logSid, tail().c_str()));
			// the implicit head of a headless machine defines nothing either; what verbose logging records for it must still
			// be something that happens to the root region in the operation under way
			if (in.logSid == ROOT && !cfg::HEAD) {
				const uint8_t op = in.st.op;
				const Method m = in.logM;
				bool fits;
				switch (m) {
				case Method::QUERY: fits = op == OP_QUERY; break;
				case Method::PRE_UPDATE: case Method::UPDATE: case Method::POST_UPDATE: fits = op == OP_UPDATE; break;
				case Method::PRE_REACT: case Method::REACT: case Method::POST_REACT: fits = op == OP_REACT; break;
				case Method::PLAN_SUCCEEDED: case Method::PLAN_FAILED: fits = op == OP_UPDATE || op == OP_REACT; break;
				case Method::ENTRY_GUARD: case Method::ENTER: fits = isActivationOp(op) || op == OP_LOAD || op == OP_REPLAY_ENTER; break;
				case Method::EXIT: fits = op == OP_EXIT || op == OP_DTOR || op == OP_LOAD; break;
				default: fits = false; break;
				}
				if (!fits)
					V("C16", fmt("root-region-record-does-not-fit-the-operation|%s|op=%s", mname(m), opName(op)), fmt("method record (root,%s) during %s: nothing of that kind is delivered to the root region by this operation; %s", mname(m), opName(op), tail().c_str()));
				else stats.add("c16_root_region_records_checked");
			}
			stats.add("c16_records_for_invisible_states");
			return;
		}
		// a head whose class leaves a plan outcome callback out: the event happens, nothing observable runs
		if (!cfg::defines(in.logSid, in.logM) && (in.logM == Method::PLAN_SUCCEEDED || in.logM == Method::PLAN_FAILED)) { stats.add("c16_records_for_undefined_outcome_callbacks"); return; }
		V("C16", fmt("method-record-without-delivery|%s", mname(in.logM)), fmt("method record (%u,%s) was not followed by that delivery (next: %s); %s", in.logSid, mname(in.logM), because, tail().c_str()));
	}

	void logPush(Inst& in, uint8_t kind, uint8_t a, uint8_t b) {
		Ev e; e.kind = EV_LOG; e.inst = in.slot; e.code = kind; e.a = a; e.b = b;
		push(e);
		static const char* n[] = {"method", "transition", "taskStatus", "cancelledPending"};
		flags |= F_LOG;
		stats.add2("log_records", n[kind]);
		if (!in.loggerAttached) V("C16", "record-after-detach", fmt("logger received a %s record while detached; %s", n[kind], tail().c_str()));
	}

	void logMethod(Inst& in, uint8_t sid, Method m) {
		flushMethodRecord(in, "another method record");
		logPush(in, LOG_METHOD, sid, static_cast<uint8_t>(m));
		if (!inApi) V("C16", "method-record-outside-api-call", fmt("method record (%u,%s) outside any API call", sid, mname(m)));
		if (HAS_VERBOSE && cfg::BARE && sid != ROOT && sid < N && !visibleState(sid)) {
			// verbose logging records deliveries to states that define no callback: the record is the only
			// observation of that delivery, so it is fed to the monitors as the delivery itself
			closeDelivery(in);
			Ev e; e.kind = EV_SUB; e.inst = in.slot; e.code = static_cast<uint8_t>(m); e.sid = sid; e.inj = 9;
			push(e);
			stats.add2("deliveries_to_bare_states_seen_through_verbose_log", mname(m));
			in.actualPlanKnown = false;
			if (readPlanHook && in.obj) readPlanHook(in);   // this observation point has no control object: read the plan from the machine
			onDelivery(in, m, sid);
			if (m == Method::EXIT) in.clearStatus(sid);
			return;
		}
		in.logExpectMethod = true; in.logM = m; in.logSid = sid;
	}

	void logTransition(Inst& in, uint8_t origin, uint8_t dest) {
		flushMethodRecord(in, "a transition record");
		logPush(in, LOG_TRANSITION, origin, dest);
		if (ownRequest) { ++ownLogCount; ownLogLast.a = origin; ownLogLast.b = dest; ownLogLast.code = LOG_TRANSITION; }
		else if (immOwn) { immOwn = false; ++immCount; ownLogLast.a = origin; ownLogLast.b = dest; ownLogLast.code = LOG_TRANSITION; }
		else onFireRecord(in, origin, dest);
	}

	void logTaskStatus(Inst& in, uint8_t sid, bool success) {
		flushMethodRecord(in, "a task-status record");
		logPush(in, LOG_TASK_STATUS, sid, success ? 1 : 0);
		if (ownReport) { ++ownLogCount; ownLogLast.a = sid; ownLogLast.b = success ? 1 : 0; ownLogLast.code = LOG_TASK_STATUS; }
		else V("C16", "task-status-record-without-report", fmt("task-status record (%u,%d) not caused by a succeed()/fail() call; %s", sid, int(success), tail().c_str()));
	}

	void logCancelled(Inst& in, uint8_t origin) {
		flushMethodRecord(in, "a cancellation record");
		logPush(in, LOG_CANCELLED, origin, 255);
		if (ownCancel) { ++ownLogCount; ownLogLast.a = origin; ownLogLast.b = 255; ownLogLast.code = LOG_CANCELLED; }
		else V("C16", "cancellation-record-without-cancel", fmt("cancellation record (%u) not caused by cancelPendingTransition(); %s", origin, tail().c_str()));
	}

	// after an action of the harness: exactly one matching record iff a logger is attached
	void expectOwnLog(Inst& in, uint8_t kind, uint8_t a, uint8_t b, const char* what) {
		if (!HAS_LOG) return;
		if (in.loggerAttached) {
			if (ownLogCount != 1 || ownLogLast.code != kind || ownLogLast.a != a || ownLogLast.b != b)
				V("C16", fmt("action-record-mismatch|%s", what), fmt("%s(%u,%u) produced %u records (last kind %u: %u,%u), expected exactly one matching record; %s", what, a, b, ownLogCount, ownLogLast.code, ownLogLast.a, ownLogLast.b, tail().c_str()));
			else stats.add("c16_action_records_matched");
		} else if (ownLogCount)
			V("C16", fmt("action-record-without-logger|%s", what), fmt("%s produced a record although no logger is attached", what));
		ownLogCount = 0;
	}

	void closeDelivery(Inst& in) {
		if (!in.delOpen) return;
		in.delOpen = false;
		const Method m = in.delM;
		const unsigned sid = in.delSid;
		// C15: order of injection / own callbacks within one delivery
		if (m != Method::PLAN_SUCCEEDED && m != Method::PLAN_FAILED) {
			const unsigned K = cfg::K;
			const bool own = cfg::defines(sid, m);
			std::vector<uint8_t> pre, post;
			for (unsigned i = 1; i <= K; ++i) pre.push_back(static_cast<uint8_t>(i));
			if (own) pre.push_back(0);
			if (own) post.push_back(0);
			for (unsigned i = K; i >= 1; --i) post.push_back(static_cast<uint8_t>(i));
			const auto& got = in.delOrder;
			auto seq = [&]() { std::string s; for (auto x : got) { s += x ? "I" + std::to_string(x) : std::string("S"); s += ' '; } return s; };
			bool once = got.size() == pre.size();
			if (once) { std::vector<uint8_t> sorted = got, want = pre; std::sort(sorted.begin(), sorted.end()); std::sort(want.begin(), want.end()); once = sorted == want; }
			if (!once)
				V("C15", fmt("not-exactly-once|%s|k=%u", mname(m), K), fmt("delivery of %s to state %u ran [%s], expected each of %u injections%s exactly once; %s", mname(m), sid, seq().c_str(), K, own ? " and the state" : " (the state class does not define it)", tail().c_str()));
			else switch (m) {
			case Method::ENTRY_GUARD: case Method::ENTER: case Method::REENTER: case Method::PRE_UPDATE: case Method::UPDATE: case Method::PRE_REACT: case Method::REACT:
				if (got != pre) V("C15", fmt("order|%s|k=%u", mname(m), K), fmt("%s of state %u ran [%s], expected I1..Ik then S; %s", mname(m), sid, seq().c_str(), tail().c_str()));
				break;
			case Method::EXIT: case Method::POST_UPDATE: case Method::POST_REACT:
				if (got != post) V("C15", fmt("order|%s|k=%u", mname(m), K), fmt("%s of state %u ran [%s], expected S then Ik..I1; %s", mname(m), sid, seq().c_str(), tail().c_str()));
				break;
			default: break; // exitGuard, query: not ordered by the statement
			}
			stats.add2("c15_deliveries_checked", mname(m));
			if (K) flags |= F_INJ;
		}
		// the library clears a state's task status after its exit callbacks returned
		if (m == Method::EXIT && sid != ROOT) in.clearStatus(sid);
	}

	// ------------------------------------------------------------------
	// expected phase sequence of update()/react()  (C05)

	static std::vector<std::pair<Method, uint8_t>> phasePlan(const Inst& in, uint8_t op, int cur0) {
		std::vector<std::pair<Method, uint8_t>> e;
		const uint8_t S = static_cast<uint8_t>(cur0);
		const Method pre = op == OP_UPDATE ? Method::PRE_UPDATE : Method::PRE_REACT;
		const Method mid = op == OP_UPDATE ? Method::UPDATE : Method::REACT;
		const Method post = op == OP_UPDATE ? Method::POST_UPDATE : Method::POST_REACT;
		if (cfg::HEAD) e.push_back({pre, ROOT});
		if (in.sees(S)) e.push_back({pre, S});
		if (cfg::HEAD) e.push_back({mid, ROOT});
		if (in.sees(S)) e.push_back({mid, S});
		if (in.sees(S)) e.push_back({post, S});
		if (cfg::HEAD) e.push_back({post, ROOT});
		return e;
	}

	void phasesMustBeComplete(Inst& in, const char* because) {
		Step& s = in.st;
		if (s.op != OP_UPDATE && s.op != OP_REACT) return;
		if (s.phaseError) return;
		const auto plan = phasePlan(in, s.op, s.cur0);
		if (s.phaseIdx < plan.size()) {
			s.phaseError = true;
			V("C05", fmt("phase-missing|%s|expected=%s.%s|before=%s", opName(s.op), plan[s.phaseIdx].second == ROOT ? "R" : "S", mname(plan[s.phaseIdx].first), because),
			  fmt("%s(): %s of %s was not delivered before %s (active state at call: %d); %s", opName(s.op), mname(plan[s.phaseIdx].first),
				  plan[s.phaseIdx].second == ROOT ? "the root" : "the active state", because, s.cur0, tail().c_str()));
		}
	}

	void maybeOpenPlanWindow(Inst& in) {
		Step& s = in.st;
		if ((s.op == OP_UPDATE || s.op == OP_REACT) && s.planPhase == 0 && !s.planWindowUsed) {
			const auto plan = phasePlan(in, s.op, s.cur0);
			// (when the phase sequence itself is broken - reported under C05 - the window still opens at
			// the first event that can only belong to or follow the plan step, so that C08/C09 are not blamed)
			if (s.phaseIdx >= plan.size() || s.phaseError) {
				s.planWindowUsed = true;
				s.planPhase = 1;
				s.planAtStep = in.plan;
				s.fires.clear();
			}
		}
	}

	// ------------------------------------------------------------------

	void onDelivery(Inst& in, Method m, uint8_t sid) {
		Step& s = in.st;
		stats.add2("deliveries", mname(m));
		switch (m) {
		case Method::PRE_UPDATE: case Method::UPDATE: case Method::POST_UPDATE:
		case Method::PRE_REACT: case Method::REACT: case Method::POST_REACT:
			onPhase(in, m, sid);
			break;
		case Method::QUERY:
			if (s.op != OP_QUERY) V("C05", fmt("query-callback-outside-query|op=%s", opName(s.op)), fmt("query() callback of %u delivered during %s; %s", sid, opName(s.op), tail().c_str()));
			else {
				if (sid == ROOT) ++s.queryRoot;
				else {
					++s.queryState;
					if (static_cast<int>(sid) != s.cur0) V("C05", "query-to-inactive-state", fmt("query() delivered to state %u while %d is active; %s", sid, s.cur0, tail().c_str()));
				}
				if (s.queryRoot > 1 || s.queryState > 1) V("C05", "query-delivered-twice", fmt("query() delivered more than once to %u; %s", sid, tail().c_str()));
			}
			break;
		case Method::PLAN_SUCCEEDED: case Method::PLAN_FAILED:
			onOutcome(in, m, sid);
			break;
		case Method::EXIT_GUARD:
			leavePlanWindow(in, "exitGuard");
			onExitGuard(in, sid);
			break;
		case Method::ENTRY_GUARD:
			leavePlanWindow(in, "entryGuard");
			onEntryGuard(in, sid);
			break;
		case Method::ENTER: case Method::EXIT: case Method::REENTER:
			leavePlanWindow(in, mname(m));
			onLife(in, m, sid);
			break;
		default: break;
		}
	}

	void onPhase(Inst& in, Method m, uint8_t sid) {
		Step& s = in.st;
		if (s.op != OP_UPDATE && s.op != OP_REACT) {
			V("C05", fmt("phase-callback-outside-cycle|%s|op=%s", mname(m), opName(s.op)), fmt("%s of %u delivered during %s; %s", mname(m), sid, opName(s.op), tail().c_str()));
			return;
		}
		const auto plan = phasePlan(in, s.op, s.cur0);
		if (s.phaseError) return;
		if (sid != ROOT && static_cast<int>(sid) != s.cur0) {
			s.phaseError = true;
			V("C05", fmt("phase-callback-of-inactive-state|%s", mname(m)), fmt("%s delivered to state %u but %d was active when %s() began; %s", mname(m), sid, s.cur0, opName(s.op), tail().c_str()));
			return;
		}
		if (s.phaseIdx >= plan.size()) {
			s.phaseError = true;
			V("C05", fmt("phase-duplicate|%s|%s", opName(s.op), mname(m)), fmt("%s of %s delivered again after the cycle's phases were complete; %s", mname(m), sid == ROOT ? "root" : "active state", tail().c_str()));
			return;
		}
		if (plan[s.phaseIdx].first != m || plan[s.phaseIdx].second != sid) {
			s.phaseError = true;
			V("C05", fmt("phase-order|%s|pos=%u|expected=%s.%s|got=%s.%s", opName(s.op), s.phaseIdx, plan[s.phaseIdx].second == ROOT ? "R" : "S", mname(plan[s.phaseIdx].first), sid == ROOT ? "R" : "S", mname(m)),
			  fmt("%s(): delivery #%u is %s of %s, expected %s of %s; %s", opName(s.op), s.phaseIdx, mname(m), sid == ROOT ? "root" : "state", mname(plan[s.phaseIdx].first), plan[s.phaseIdx].second == ROOT ? "root" : "state", tail().c_str()));
			return;
		}
		if (s.guardDeliveries || s.applyBegun) {
			s.phaseError = true;
			V("C05", "phase-after-guards-or-transition", fmt("%s delivered after a guard/enter/exit of the same call; %s", mname(m), tail().c_str()));
		}
		++s.phaseIdx;
	}

	// ------------------------------------------------------------------
	// plan step window (C08, C09, C10)

	void onOutcome(Inst& in, Method m, uint8_t sid) {
		Step& s = in.st;
		flags |= F_OUTCOME;
		stats.add2("outcomes", mname(m));
		phasesMustBeComplete(in, mname(m));
		maybeOpenPlanWindow(in);
		if (sid != ROOT) V("C09", "outcome-delivered-to-non-root", fmt("%s delivered to state %u; %s", mname(m), sid, tail().c_str()));
		if ((s.op != OP_UPDATE && s.op != OP_REACT) || s.planPhase != 1)
			V("C09", fmt("outcome-outside-plan-step|%s|op=%s", mname(m), opName(s.op)), fmt("%s delivered outside the plan step (op %s, window %u); %s", mname(m), opName(s.op), s.planPhase, tail().c_str()));
		if (s.outcomes) V("C09", "two-outcomes-in-one-cycle", fmt("%s delivered after %s in the same cycle; %s", mname(m), mname(s.outcome), tail().c_str()));
		if (!in.tasksAdded)
			V("C09", fmt("outcome-without-any-task-added|%s", mname(m)), fmt("%s delivered although no task was added since activation (plan %s); %s", mname(m), planStr(in.plan).c_str(), tail().c_str()));
		if (m == Method::PLAN_FAILED && s.curReportedFailure) stats.add("converse_planFailed_obligations_met");
		if (m == Method::PLAN_FAILED) {
			if (!in.anyFailMay()) V("C09", "planFailed-without-failure", fmt("planFailed delivered, no failure report outstanding; %s", tail().c_str()));
			if (!s.fires.empty() || s.sawFire) { V("C09", "fire-in-planFailed-cycle", fmt("a task fired in the cycle that delivered planFailed; %s", tail().c_str())); }
		} else {
			if (!in.anySuccMay()) V("C09", "planSucceeded-without-success", fmt("planSucceeded delivered, no success report outstanding; %s", tail().c_str()));
			if (!in.plan.empty()) V("C09", "planSucceeded-with-tasks-remaining", fmt("planSucceeded delivered while the plan holds %s; %s", planStr(in.plan).c_str(), tail().c_str()));
		}
		++s.outcomes; s.outcome = m; s.planPhase = 2;
	}

	// a logger transition record that the harness did not cause = a plan task firing
	void onFireRecord(Inst& in, uint8_t origin, uint8_t dest) {
		Step& s = in.st;
		stats.add("fires_logged");
		if (s.op == OP_UPDATE || s.op == OP_REACT) { phasesMustBeComplete(in, "plan-fire"); maybeOpenPlanWindow(in); }
		Task t; t.origin = origin; t.dest = dest;
		if (s.planPhase != 1) {
			V("C08", fmt("fire-outside-plan-step|op=%s|window=%u", opName(s.op), s.planPhase), fmt("transition %u>%u issued by the library outside the plan step of update()/react(); %s", origin, dest, tail().c_str()));
			if (s.planPhase == 2 && s.outcome == Method::PLAN_FAILED) V("C09", "fire-in-planFailed-cycle", fmt("task %u>%u fired after planFailed in the same cycle; %s", origin, dest, tail().c_str()));
		}
		s.sawFire = true;
		s.firesFromLog = true;
		s.fires.push_back(t);
	}

	void leavePlanWindow(Inst& in, const char* because) {
		Step& s = in.st;
		phasesMustBeComplete(in, because);
		maybeOpenPlanWindow(in);
		if (s.planPhase == 1) closePlanWindow(in);
		else if (s.planPhase == 2) outcomeCleared(in);
	}

	void outcomeCleared(Inst& in) {
		Step& s = in.st;
		s.planPhase = 0;
		// "after either callback returns the plan is empty"
		if (in.actualPlanKnown && !in.actualPlan.empty())
			V("C09", fmt("plan-not-empty-after-%s", mname(s.outcome)), fmt("plan is %s at the first observation after %s returned; %s", planStr(in.actualPlan).c_str(), mname(s.outcome), tail().c_str()));
		in.plan.clear();
		in.clearStatuses(true);
	}

	void closePlanWindow(Inst& in);     // below (long)

	// ------------------------------------------------------------------
	// guard rounds (C02, C03, C04)

	void finalizeRound(Inst& in) {
		Step& s = in.st;
		if (!s.roundOpen) return;
		s.roundOpen = false;
		Round& r = s.rounds.back();
		if (isProcessingOp(s.op)) {
			if (!r.cancelled && !r.entrySeen && r.pending.valid && in.sees(r.pending.dest))
				V("C03", "entry-guard-not-consulted", fmt("round %zu: exit guard passed but the entry guard of destination %u was never consulted; %s", s.rounds.size(), r.pending.dest, tail().c_str()));
		}
		if (r.cancelled) { flags |= F_VETO; if (s.survivor.valid) flags |= F_VETO_AFTER_SURVIVOR; }
		flags |= F_ROUND;
		if (!r.cancelled && r.pending.valid) s.survivor = r.pending;
		stats.add2("round_outcomes", r.cancelled ? "vetoed" : (r.pending.valid ? "survived" : "initial"));
	}

	void onExitGuard(Inst& in, uint8_t sid) {
		Step& s = in.st;
		++s.guardDeliveries;
		if (!isProcessingOp(s.op)) {
			guardOutsideProcessing(in, Method::EXIT_GUARD, sid);
			return;
		}
		if (s.applyBegun) V("C03", "guard-after-enter-exit", fmt("exitGuard of %u delivered after enter/exit/reenter of the same call; %s", sid, tail().c_str()));
		finalizeRound(in);
		if (static_cast<int>(sid) != in.cur) V("C03", "exit-guard-of-non-active-state", fmt("exitGuard delivered to %u while %d is active; %s", sid, in.cur, tail().c_str()));
		if (s.rounds.size() >= cfg::L)
			V("C04", fmt("round-limit-exceeded|L=%u|op=%s", cfg::L, opName(s.op)), fmt("guard round %zu started in one %s call, substitution limit is %u; %s", s.rounds.size() + 1, opName(s.op), cfg::L, tail().c_str()));
		Round r;
		r.pending = in.latest;
		r.exitSeen = true;
		if (!in.latest.valid)
			V("C02", "guard-round-without-request", fmt("a guard round started although no request is outstanding; %s", tail().c_str()));
		in.latest = Req{};
		s.rounds.push_back(r);
		s.roundOpen = true;
		if (s.rounds.size() > (cfg::L + 8 > 64 ? cfg::L + 8 : 64)) stopCase = true;
	}

	void guardOutsideProcessing(Inst& in, Method m, uint8_t sid) {
		Step& s = in.st;
		const std::string msg = fmt("%s of %u delivered during %s, which must not consult guards; %s", mname(m), sid, opName(s.op), tail().c_str());
		if (s.op == OP_REPLAY || s.op == OP_REPLAY_ENTER) { V("C03", fmt("guard-consulted-by-%s", opName(s.op)), msg); V("C11", fmt("guard-consulted-by-%s", opName(s.op)), msg); }
		else if (s.op == OP_LOAD) { V("C03", "guard-consulted-by-load", msg); V("C12", "guard-consulted-by-load", msg); }
		else { V("C02", fmt("guard-outside-processing|op=%s", opName(s.op)), msg); V("C03", fmt("guard-outside-processing|op=%s", opName(s.op)), msg); }
	}

	void onEntryGuard(Inst& in, uint8_t sid) {
		Step& s = in.st;
		++s.guardDeliveries;
		if (isActivationOp(s.op)) {
			if (s.applyBegun) V("C03", "guard-after-enter-exit", fmt("entryGuard of %u delivered after enter of the same activation; %s", sid, tail().c_str()));
			const bool continues = sid != ROOT && cfg::HEAD && s.roundOpen && s.rounds.back().rootSeen && !s.rounds.back().entrySeen;
			if (!continues) {
				finalizeRound(in);
				if (s.rounds.size() >= 1 + cfg::L)
					V("C04", fmt("activation-round-limit-exceeded|L=%u", cfg::L), fmt("activation evaluated entry guards %zu times, limit is 1+%u; %s", s.rounds.size() + 1, cfg::L, tail().c_str()));
				Round r;
				if (!s.rounds.empty()) {
					r.pending = in.latest;
					if (!in.latest.valid) V("C02", "guard-round-without-request", fmt("activation: a redirect round started without a request; %s", tail().c_str()));
				} else if (in.latest.valid)
					V("C02", "request-outstanding-before-activation", fmt("shadow request %s present at activation; %s", in.latest.str().c_str(), tail().c_str()));
				in.latest = Req{};
				s.rounds.push_back(r);
				s.roundOpen = true;
				if (s.rounds.size() > (cfg::L + 8 > 64 ? cfg::L + 8 : 64)) stopCase = true;
			}
			Round& r = s.rounds.back();
			if (sid == ROOT) r.rootSeen = true;
			else {
				r.entrySeen = true;
				const unsigned expect = s.rounds.size() == 1 ? 0u : r.pending.dest;
				if (sid != expect) V("C03", "activation-entry-guard-wrong-state", fmt("activation round %zu consulted entryGuard of %u, expected %u; %s", s.rounds.size(), sid, expect, tail().c_str()));
			}
			return;
		}
		if (!isProcessingOp(s.op)) {
			guardOutsideProcessing(in, Method::ENTRY_GUARD, sid);
			return;
		}
		if (s.applyBegun) V("C03", "guard-after-enter-exit", fmt("entryGuard of %u delivered after enter/exit/reenter of the same call; %s", sid, tail().c_str()));
		if (sid == ROOT) return; // root guards are not part of request processing; nothing is stated about them
		if (!s.roundOpen || !s.rounds.back().exitSeen || s.rounds.back().entrySeen) {
			if (in.sees(static_cast<unsigned>(in.cur))) {
				V("C03", "entry-guard-without-exit-guard", fmt("entryGuard of %u consulted without the active state's exitGuard first; %s", sid, tail().c_str()));
				// C04: whatever is accepted must have passed its guards - this request was never shown to the exit guard
				V("C04", "request-evaluated-without-its-exit-guard", fmt("a request for %u went to the entry guard without the active state's exitGuard having been consulted: if accepted it did not pass its guards; %s", sid, tail().c_str()));
			}
			// keep the bookkeeping going: treat as a round of its own
			finalizeRound(in);
			Round r; r.pending = in.latest; in.latest = Req{}; r.exitSeen = true;
			s.rounds.push_back(r); s.roundOpen = true;
		}
		Round& r = s.rounds.back();
		if (r.cancelled) V("C03", "entry-guard-after-exit-guard-cancelled", fmt("exit guard cancelled the request %s but entryGuard of %u was still consulted; %s", r.pending.str().c_str(), sid, tail().c_str()));
		if (r.pending.valid && sid != r.pending.dest)
			V("C03", "entry-guard-of-wrong-state", fmt("request %s evaluated by entryGuard of %u; %s", r.pending.str().c_str(), sid, tail().c_str()));
		r.entrySeen = true;
	}

	// decide what happened to a request that no round evaluated (called once rounds are over)
	void resolveAfterRounds(Inst& in) {
		Step& s = in.st;
		if (s.resolved) return;
		s.resolved = true;
		finalizeRound(in);
		if (!(isProcessingOp(s.op) || isActivationOp(s.op))) return;
		if (!in.latest.valid) return;
		const unsigned limit = isActivationOp(s.op) ? 1 + cfg::L : cfg::L;
		if (s.rounds.size() >= limit) { s.limitLeftOver = true; flags |= F_LEFTOVER | F_LIMIT; stats.add("limit_leftovers"); return; }
		// a request that repeats the accepted transition exactly (same requester, destination, payload presence)
		// is absorbed by design (the test-suite relies on it); anything else must get its own guard round
		if (s.survivor.valid && in.latest.dest == s.survivor.dest && in.latest.origin == s.survivor.origin && in.latest.hasPay == s.survivor.hasPay) {
			in.latest = Req{}; stats.add("absorbed_requests"); return;
		}
		const bool sameDest = s.survivor.valid && in.latest.dest == s.survivor.dest;
		const std::string msg = fmt("request %s was neither evaluated by guards nor left over at the limit (rounds=%zu, limit=%u, accepted so far %s); %s",
									in.latest.str().c_str(), s.rounds.size(), limit, s.survivor.str().c_str(), tail().c_str());
		const std::string key = fmt("request-dropped-unevaluated|%s", sameDest ? (in.latest.origin != s.survivor.origin ? "same-destination-other-requester" : "same-destination-payload-added-or-dropped") : "other-destination");
		V("C02", key, msg);
		V("C03", key, msg);
		if (in.latest.hasPay) V("C07", key, msg);
		in.latest = Req{};
	}

	// ------------------------------------------------------------------
	// lifecycle deliveries (C01 pairing automaton + apply bookkeeping)

	void onLife(Inst& in, Method m, uint8_t sid) {
		Step& s = in.st;
		resolveAfterRounds(in);
		s.applyBegun = true;
		const bool lifeOp = isProcessingOp(s.op) || isActivationOp(s.op) || s.op == OP_EXIT || s.op == OP_DTOR || s.op == OP_LOAD || s.op == OP_REPLAY || s.op == OP_REPLAY_ENTER;
		if (!lifeOp) {
			const std::string msg = fmt("%s of %u delivered during %s, which is not a processing point; %s", mname(m), sid, opName(s.op), tail().c_str());
			V("C02", fmt("transition-applied-outside-processing|op=%s", opName(s.op)), msg);
		}
		if (m == Method::ENTER) {
			if (sid == ROOT) {
				++s.rootEnters;
				if (in.rootIn || in.cur >= 0) V("C01", "root-enter-while-active", fmt("root enter() while root/state already entered (cur %d); %s", in.cur, tail().c_str()));
				in.rootIn = true;
			} else {
				++s.enters; s.enterSid = sid;
				if (in.cur >= 0) V("C01", "enter-while-another-enter-unpaired", fmt("enter(%u) while enter(%d) has no matching exit; %s", sid, in.cur, tail().c_str()));
				if (cfg::HEAD && !in.rootIn) V("C01", "state-enter-before-root-enter", fmt("enter(%u) before the root's enter(); %s", sid, tail().c_str()));
				in.cur = sid;
			}
		} else if (m == Method::EXIT) {
			if (sid == ROOT) {
				++s.rootExits;
				if (!in.rootIn) V("C01", "root-exit-unpaired", fmt("root exit() without a matching enter(); %s", tail().c_str()));
				if (in.cur >= 0 && in.sees(static_cast<unsigned>(in.cur))) V("C01", "root-exit-before-state-exit", fmt("root exit() while state %d is still entered; %s", in.cur, tail().c_str()));
				in.rootIn = false;
				if (in.cur >= 0) in.cur = -1;
			} else {
				++s.exits; s.exitSid = sid;
				if (in.cur != static_cast<int>(sid)) {
					V("C01", "exit-of-state-that-is-not-current", fmt("exit(%u) but the state entered most recently without exit is %d; %s", sid, in.cur, tail().c_str()));
					V("C14", "callbacks-of-a-state-that-was-not-addressed|exit", fmt("exit() ran on state %u, the state that is active (and the only one whose callbacks may run) is %d; %s", sid, in.cur, tail().c_str()));
				}
				in.cur = -1;
			}
		} else {
			++s.reenters; s.reenterSid = sid;
			if (sid == ROOT || in.cur != static_cast<int>(sid)) {
				V("C01", "reenter-of-non-active-state", fmt("reenter(%u) while %d is the active state; %s", sid, in.cur, tail().c_str()));
				V("C14", "callbacks-of-a-state-that-was-not-addressed|reenter", fmt("reenter() ran on state %u while %d is the active state; %s", sid, in.cur, tail().c_str()));
			}
		}
	}

	// ------------------------------------------------------------------
	// actions recorded by the callbacks / the driver

	void act(Inst& in, uint8_t kind, uint8_t a = 255, uint8_t b = 255, uint64_t tag = 0) {
		flushMethodRecord(in, "a harness action");
		Ev e; e.kind = EV_ACT; e.inst = in.slot; e.code = kind; e.a = a; e.b = b; e.tag = tag;
		push(e);
		static const char* n[] = {"changeTo", "changeWith", "cancel", "succeed", "fail", "plan.append", "plan.append(full)", "plan.remove", "plan.clear"};
		stats.add2("actions", n[kind]);
	}

	void noteRequest(Inst& in, uint8_t origin, uint8_t dest, bool hasPay, uint64_t tag) {
		in.latest.valid = true; in.latest.origin = origin; in.latest.dest = dest; in.latest.hasPay = hasPay; in.latest.tag = tag;
	}

	void noteCancel(Inst& in) {
		Step& s = in.st;
		if (s.roundOpen) s.rounds.back().cancelled = true;
	}

	void noteReport(Inst& in, bool success, uint8_t target, uint8_t callerSid, bool fromCallback) {
		Step& s = in.st;
		flags |= F_REPORT;
		if (success) { in.succMay[target] = in.succMust[target] = true; s.anySuccNow = true; }
		else { in.failMay[target] = in.failMust[target] = true; s.anyFailNow = true; }
		// the status a delivery hands back to the cycle is the last one set during it; a failure handed back sticks to the cycle
		if (fromCallback && (s.op == OP_UPDATE || s.op == OP_REACT) && s.planPhase == 0 && s.outcomes == 0 && s.guardDeliveries == 0 && in.delOpen && static_cast<int>(in.delSid) == s.cur0 && callerSid == in.delSid) {
			if (!success && static_cast<int>(target) == s.cur0) s.ownFailSeq = static_cast<long>(in.delSeq);
			else if (success && s.ownFailSeq == static_cast<long>(in.delSeq)) s.ownFailSeq = -1;
		}
		// a report for the active state made during the phases of this cycle - by the state itself or, naming it, by the root head
		if (fromCallback && (s.op == OP_UPDATE || s.op == OP_REACT) && (static_cast<int>(callerSid) == s.cur0 || callerSid == ROOT) && static_cast<int>(target) == s.cur0 && s.planPhase == 0 && s.outcomes == 0 && s.guardDeliveries == 0) {
			if (success) s.curReportedSuccess = true; else s.curReportedFailure = true;
		}
		s.userClearAfterReport = false;
	}

	void notePlanAppend(Inst& in, const Task& t) { flags |= F_PLANEDIT; in.planEditedSinceCompare = true; in.plan.push_back(t); in.tasksAdded = true; in.st.planEditedThisCycle = true; }
	void notePlanRemove(Inst& in, size_t idx) { in.planEditedSinceCompare = true; if (idx < in.plan.size()) in.plan.erase(in.plan.begin() + static_cast<long>(idx)); in.st.planEditedThisCycle = true; }
	void notePlanClear(Inst& in) {
		in.planEditedSinceCompare = true;
		in.plan.clear();
		in.clearStatuses(false);
		in.st.userClearAfterReport = true;
		in.st.curReportedSuccess = in.st.curReportedFailure = false;
		in.st.planEditedThisCycle = true;
	}

	void deactivated(Inst& in) {
		in.latest = Req{};
		in.plan.clear();
		in.clearStatuses(true);
		in.tasksAdded = false;
		in.prevExpected = Req{};
		in.prevLenientEmptyOk = false;
	}
};

// marks the extent of one call into the library (from the driver or from inside a callback)
struct LibScope {
	World& w;
	unsigned savedUser;
	bool savedLib;
	LibScope() : w(*W), savedUser(w.inUser), savedLib(w.inLib) { w.inUser = 0; w.inLib = true; }
	~LibScope() { w.inUser = savedUser; w.inLib = savedLib; }
};
#define LIB(expr) do { ::mon::LibScope libScope_; expr; } while (0)

// ---------------------------------------------------------------------------

inline void World::closePlanWindow(Inst& in) {
	Step& s = in.st;
	s.planPhase = 0;
	const PlanVec before = s.planAtStep;
	const bool haveAfter = in.actualPlanKnown;
	const PlanVec after = haveAfter ? in.actualPlan : in.plan;
	const int cur0 = s.cur0;
	stats.add("plan_windows");

	// which tasks left the plan during the step?  'after' must be an order-preserving sub-list of 'before'.
	// Matching runs from the tail, so that among equal tasks the ones nearer the head count as removed
	// (tasks are consumed from the head).
	std::vector<size_t> removedIdx;
	{
		size_t j = after.size();
		for (size_t i = before.size(); i-- > 0;) {
			if (j > 0 && before[i].same(after[j - 1])) --j;
			else removedIdx.push_back(i);
		}
		std::reverse(removedIdx.begin(), removedIdx.end());
		if (j != 0) {
			const std::string msg = fmt("plan before the step %s, after %s: not an order-preserving sub-list; fires %zu; %s", planStr(before).c_str(), planStr(after).c_str(), s.fires.size(), tail().c_str());
			V("C08", "plan-after-step-not-sublist-of-before", msg);
			V("C10", "plan-after-step-not-sublist-of-before", msg);
			in.plan = after;
			return;
		}
	}

	// headless machines: plan outcomes are invisible.  Without a logger a plan that emptied during the
	// step was either consumed by fires (then a guard round evaluating the last fired task follows in
	// this very call) or cleared after an unobservable planFailed.
	// The same holds for a root head whose class leaves planSucceeded() or planFailed() out.
	constexpr bool failVisible = cfg::HEAD && cfg::defines(ROOT, Method::PLAN_FAILED);
	constexpr bool succVisible = cfg::HEAD && cfg::defines(ROOT, Method::PLAN_SUCCEEDED);
	if (!failVisible || !succVisible) {
		const bool failPossible = !failVisible && in.anyFailMay();
		const bool succPossible = !succVisible && in.anySuccMay() && before.empty();
		if ((succPossible || failPossible) && in.tasksAdded) in.clearStatuses(false);   // reports may have been wiped with the plan
		if (!s.firesFromLog && !before.empty() && after.empty() && failPossible) {
			const Task& lastRemoved = before[removedIdx.back()];
			Req asReq; asReq.valid = true; asReq.origin = lastRemoved.origin; asReq.dest = lastRemoved.dest; asReq.hasPay = lastRemoved.hasPay; asReq.tag = lastRemoved.tag;
			const bool fireEvidence = obsPendingKnown && obsPending.same(asReq);
			if (!fireEvidence) {
				in.plan.clear(); in.clearStatuses(true);
				stats.add("invisible_outcomes_assumed");
				return;
			}
			if (in.latest.same(asReq)) {
				// indistinguishable: a callback requested the very transition the last task describes
				in.plan.clear();
				for (unsigned i = 0; i < 32; ++i) { in.succMay[i] = in.failMay[i] = true; in.succMust[i] = in.failMust[i] = false; }
				stats.add("ambiguous_plan_steps");
				return;
			}
		}
	}

	// fired tasks: from the log when a logger is attached, otherwise the tasks that left the plan
	std::vector<Task> fired;
	std::vector<size_t> firedIdx;
	if (s.firesFromLog) {
		std::vector<char> used(before.size(), 0);
		for (const Task& f : s.fires) {
			size_t k = before.size();
			for (size_t i = 0; i < before.size(); ++i) if (!used[i] && before[i].origin == f.origin && before[i].dest == f.dest) { k = i; break; }
			if (k == before.size()) {
				V("C08", "fire-matches-no-task", fmt("library issued %u>%u in the plan step but the plan %s holds no such task; %s", f.origin, f.dest, planStr(before).c_str(), tail().c_str()));
				continue;
			}
			used[k] = 1; fired.push_back(before[k]); firedIdx.push_back(k);
		}
		// removed == fired
		std::vector<size_t> a = firedIdx; std::sort(a.begin(), a.end());
		if (haveAfter && a != removedIdx) {
			bool explainable = false;
			// positions may differ between identical tasks; compare as multisets of task values
			if (a.size() == removedIdx.size()) {
				std::vector<char> usedR(removedIdx.size(), 0);
				explainable = true;
				for (size_t i = 0; i < a.size(); ++i) {
					bool found = false;
					for (size_t k = 0; k < removedIdx.size(); ++k) if (!usedR[k] && before[a[i]].same(before[removedIdx[k]])) { usedR[k] = 1; found = true; break; }
					if (!found) explainable = false;
				}
			}
			if (!explainable) {
				const std::string msg = fmt("plan %s -> %s but the tasks fired were %zu (%s); a fired task must be removed exactly once and unfired tasks must stay; %s",
											planStr(before).c_str(), planStr(after).c_str(), fired.size(), planStr(fired).c_str(), tail().c_str());
				V("C08", a.size() > removedIdx.size() ? "fired-task-not-removed" : "unfired-task-removed", msg);
			}
		}
	} else {
		for (size_t i : removedIdx) { fired.push_back(before[i]); firedIdx.push_back(i); }
	}

	// legality of every fire
	for (size_t n = 0; n < fired.size(); ++n) {
		const Task& f = fired[n];
		stats.add("fires_checked");
		if (static_cast<int>(f.origin) != cur0)
			V("C08", fmt("fire-origin-not-active|origin%s0", f.origin == 0 ? "==" : "!="), fmt("task %s fired while %d is the active state; plan %s; %s", f.str().c_str(), cur0, planStr(before).c_str(), tail().c_str()));
		else if (!in.succMay[f.origin])
			V("C08", "fire-without-success-report", fmt("task %s fired but no success report for %u is outstanding; %s", f.str().c_str(), f.origin, tail().c_str()));
		for (size_t i = 0; i < firedIdx[n]; ++i) {
			bool firedEarlier = false;
			for (size_t k = 0; k < n; ++k) if (firedIdx[k] == i) firedEarlier = true;
			if (firedEarlier) continue;   // no longer ahead of it
			if (before[i].origin != f.origin) {
				V("C08", fmt("fire-past-earlier-task-of-other-origin|blocker-origin%s0", before[i].origin == 0 ? "==" : "!="),
				  fmt("task %s (position %zu) fired while task %s with a different origin is ahead of it in the plan %s; %s", f.str().c_str(), firedIdx[n], before[i].str().c_str(), planStr(before).c_str(), tail().c_str()));
				break;
			}
		}
	}
	// converse: the head task of the active, succeeding state must fire
	if (!before.empty() && cur0 >= 0 && static_cast<int>(before[0].origin) == cur0 && s.curReportedSuccess && !s.anyFailNow && !in.anyFailMay() && !s.userClearAfterReport && in.tasksAdded && s.outcomes == 0) {
		bool headFired = false;
		for (size_t k : firedIdx) if (k == 0 || before[k].same(before[0])) headFired = true;
		stats.add("converse_fire_obligations");
		if (!headFired)
			V("C08", "head-task-did-not-fire", fmt("state %d (active) reported success, the first task %s has it as origin, no failure was reported, yet the task did not fire; plan after %s; %s", cur0, before[0].str().c_str(), planStr(after).c_str(), tail().c_str()));
	}
	// converse: failure of the active state with a non-empty plan must deliver planFailed (visible with a root head only)
	// (after a Plan::clear() by the program the per-state failure bit is gone; the failure then travels with the cycle's own
	// status only, which a later success report overwrites)
	if (failVisible && !before.empty() && ((s.curReportedFailure && !s.userClearAfterReport) || s.ownFailSeq >= 0) && in.tasksAdded && s.outcomes == 0) {
		stats.add("converse_planFailed_obligations");
		V("C09", "planFailed-not-delivered", fmt("active state %d reported failure with plan %s but planFailed was not delivered in this cycle; %s", cur0, planStr(before).c_str(), tail().c_str()));
	}

	// consumption + shadow update
	for (const Task& f : fired) { in.succMay[f.origin] = in.succMust[f.origin] = false; }
	if (!fired.empty()) {
		flags |= F_FIRE;
		const Task& lf = fired.back();
		noteRequest(in, lf.origin, lf.dest, lf.hasPay, lf.tag);
		stats.add("plan_steps_with_fires");
	}
	in.plan = after;
}

// ---------------------------------------------------------------------------

inline void World::apiEnd(Inst& in) {
	Step& s = in.st;
	closeDelivery(in);
	flushMethodRecord(in, "return of the API call");
	in.actualPlanKnown = false;
	if (readPlanHook && in.obj && s.op != OP_DTOR) readPlanHook(in);
	if (s.op == OP_UPDATE || s.op == OP_REACT) leavePlanWindow(in, "return");
	resolveAfterRounds(in);
	inApi = false;

	// C05 query structure
	if (s.op == OP_QUERY) {
		if (cfg::HEAD && s.queryRoot != 1) V("C05", "query-not-delivered-to-root-once", fmt("query(): root received %u query callbacks; %s", s.queryRoot, tail().c_str()));
		if (s.cur0 >= 0 && in.sees(static_cast<unsigned>(s.cur0)) && s.queryState != 1) V("C05", "query-not-delivered-to-active-state-once", fmt("query(): active state %d received %u query callbacks; %s", s.cur0, s.queryState, tail().c_str()));
	}

	const auto applied = [&]() {
		return fmt("exits=%u(%d) enters=%u(%d) reenters=%u(%d)", s.exits, s.exitSid, s.enters, s.enterSid, s.reenters, s.reenterSid);
	};

	if (isProcessingOp(s.op)) {
		stats.add2("rounds_histogram", std::to_string(s.rounds.size()));
		bool anyVeto = false, anyRedirect = s.rounds.size() > 1;
		for (auto& r : s.rounds) if (r.cancelled) anyVeto = true;
		if (anyVeto) stats.add("processing_calls_with_veto");
		if (anyRedirect) { stats.add("processing_calls_with_redirect"); flags |= F_REDIRECT; }
		if (s.rounds.size() >= cfg::L) { flags |= F_LIMIT; stats.add2("calls_at_round_limit", fmt("L=%u", cfg::L)); }
		if (s.survivor.valid) flags |= F_TRANSITION;
		if (s.op == OP_UPDATE || s.op == OP_REACT) flags |= F_CYCLE;
		const bool cur0Visible = s.cur0 >= 0 && in.sees(static_cast<unsigned>(s.cur0));
		if (!s.survivor.valid) {
			if (s.exits || s.enters || s.reenters) {
				const std::string msg = fmt("no request survived its guards (rounds=%zu) yet %s; %s", s.rounds.size(), applied().c_str(), tail().c_str());
				V("C02", "transition-applied-without-surviving-request", msg);
				bool vetoedEntered = false;
				for (auto& r : s.rounds) if (r.cancelled && r.pending.valid && static_cast<int>(r.pending.dest) == s.enterSid) vetoedEntered = true;
				if (vetoedEntered) V("C03", "vetoed-destination-entered|no-survivor", msg);
			}
		} else {
			const int d = s.survivor.dest;
			const bool dVisible = in.sees(static_cast<unsigned>(d));
			bool ok;
			if (d != s.cur0) ok = (!cur0Visible || (s.exits == 1 && s.exitSid == s.cur0)) && (!dVisible || (s.enters == 1 && s.enterSid == d)) && s.reenters == 0 && s.exits <= 1 && s.enters <= 1;
			else ok = (!dVisible || (s.reenters == 1 && s.reenterSid == d)) && s.exits == 0 && s.enters == 0;
			if (!ok) {
				const std::string msg = fmt("last surviving request %s (active state before: %d) but applied %s; rounds=%zu; %s", s.survivor.str().c_str(), s.cur0, applied().c_str(), s.rounds.size(), tail().c_str());
				V("C02", d != s.cur0 ? "applied-destination!=last-survivor" : "self-transition-not-applied-as-reenter", msg);
				bool vetoedEntered = false;
				for (auto& r : s.rounds) if (r.cancelled && r.pending.valid && static_cast<int>(r.pending.dest) == s.enterSid && s.enterSid != d) vetoedEntered = true;
				if (vetoedEntered) {
					V("C03", "vetoed-destination-entered|fallback-ignored", msg);
					V("C04", "final-state-not-among-survivors", msg);
				}
			}
		}
		if (HAS_HISTORY) { in.prevExpected = s.survivor; in.prevLenientEmptyOk = false; }
	}
	if (isActivationOp(s.op)) {
		stats.add2("activation_rounds_histogram", std::to_string(s.rounds.size()));
		const int d = s.survivor.valid ? s.survivor.dest : 0;
		const bool dVisible = in.sees(static_cast<unsigned>(d));
		const bool ok = (!dVisible || (s.enters == 1 && s.enterSid == d)) && s.enters <= 1 && s.exits == 0 && s.reenters == 0 && (!cfg::HEAD || s.rootEnters == 1);
		if (!ok) {
			const std::string msg = fmt("activation: expected [root.enter] enter(%d) (last surviving redirect %s) but %s rootEnters=%u; rounds=%zu; %s", d, s.survivor.str().c_str(), applied().c_str(), s.rootEnters, s.rounds.size(), tail().c_str());
			V("C02", "activation-entered-wrong-state", msg);
			bool vetoedEntered = false;
			for (auto& r : s.rounds) if (r.cancelled && r.pending.valid && static_cast<int>(r.pending.dest) == s.enterSid && s.enterSid != d) vetoedEntered = true;
			if (vetoedEntered) { V("C03", "vetoed-destination-entered|activation", msg); V("C04", "final-state-not-among-survivors|activation", msg); }
			if (s.enters != 1 || (cfg::HEAD && s.rootEnters != 1)) V("C01", "activation-did-not-enter-exactly-one-state", msg);
		}
		if (HAS_HISTORY) { in.prevExpected = s.survivor; in.prevLenientEmptyOk = false; }
	}
	if (s.op == OP_EXIT || s.op == OP_DTOR) {
		const bool expectCallbacks = s.op == OP_EXIT || !cfg::MANUAL;
		if (expectCallbacks && s.cur0 >= 0) {
			const bool cur0Visible = in.sees(static_cast<unsigned>(s.cur0));
			const bool ok = (!cur0Visible || (s.exits == 1 && s.exitSid == s.cur0)) && s.enters == 0 && s.reenters == 0 && (!cfg::HEAD || s.rootExits == 1);
			if (!ok) V("C01", "deactivation-did-not-exit-state-then-root", fmt("%s: expected exit(%d) [root.exit] but %s rootExits=%u; %s", opName(s.op), s.cur0, applied().c_str(), s.rootExits, tail().c_str()));
		}
		if (expectCallbacks) deactivated(in);
	}
	if (s.op == OP_LOAD) {
		// C12: exactly the exit/enter, reenter, final exit or initial enter needed; s.arg = the saver's activity
		const int a = s.arg == 255 ? -1 : s.arg, b = s.cur0;
		bool ok;
		if (a >= 0 && b >= 0) ok = (a == b) ? (s.exits == 0 && s.enters == 0 && s.reenters <= 1 && (s.reenters == 0 || s.reenterSid == a))
											: (s.exits == 1 && s.exitSid == b && s.enters == 1 && s.enterSid == a && s.reenters == 0);
		else if (a < 0 && b >= 0) ok = s.exits == 1 && s.exitSid == b && s.enters == 0 && s.reenters == 0 && (!cfg::HEAD || s.rootExits == 1);
		else if (a >= 0 && b < 0) ok = s.enters == 1 && s.enterSid == a && s.exits == 0 && s.reenters == 0 && (!cfg::HEAD || s.rootEnters == 1);
		else ok = !s.exits && !s.enters && !s.reenters && !s.rootEnters && !s.rootExits;
		if (!ok)
			V("C12", fmt("load-trace|saver=%s|loader=%s", a < 0 ? "inactive" : "active", b < 0 ? "inactive" : (a == b ? "same" : "other")),
			  fmt("load(): saver activity %d, loader was %d, but the loader ran %s rootEnters=%u rootExits=%u; %s", a, b, applied().c_str(), s.rootEnters, s.rootExits, tail().c_str()));
		// C14: only the addressed states' callbacks run (the one left and the one loaded)
		if ((s.exits && s.exitSid != b) || (s.enters && s.enterSid != a) || (s.reenters && s.reenterSid != a))
			V("C14", "callbacks-of-a-state-that-was-not-addressed|load", fmt("load(): saver activity %d, loader was %d, but the loader ran %s; %s", a, b, applied().c_str(), tail().c_str()));
		if (in.cur != a) V("C12", "load-result-activity", fmt("after load() the loader's entered state is %d, the saver's activity was %d; %s", in.cur, a, tail().c_str()));
		if (a >= 0 && b >= 0) { in.latest = Req{}; in.plan.clear(); in.clearStatuses(true); in.tasksAdded = false; in.prevExpected = Req{}; in.prevLenientEmptyOk = false; }
		else if (a < 0 && b >= 0) deactivated(in);
		flags |= F_LOAD;
		stats.add2("load_pairs", fmt("%s->%s", b < 0 ? "inactive" : "active", a < 0 ? "inactive" : (a == b ? "same" : "other")));
	}
	if (s.op == OP_REPLAY) {
		const int d = s.arg == 255 ? -1 : s.arg;
		bool ok;
		if (d < 0) ok = !s.exits && !s.enters && !s.reenters;
		else if (d != s.cur0) ok = s.exits == 1 && s.exitSid == s.cur0 && s.enters == 1 && s.enterSid == d && s.reenters == 0;
		else ok = s.reenters == 1 && s.reenterSid == d && !s.exits && !s.enters;
		if (!ok) V("C11", fmt("replay-trace|%s", d < 0 ? "invalid-id" : d != s.cur0 ? "other" : "same"), fmt("replayTransition(%d) on a replica in state %d ran %s; %s", d, s.cur0, applied().c_str(), tail().c_str()));
		if (HAS_HISTORY) {
			if (d >= 0) { in.prevExpected = Req{}; in.prevExpected.valid = true; in.prevExpected.dest = static_cast<uint8_t>(d); in.prevLenientEmptyOk = false; }
			else in.prevLenientEmptyOk = true;
		}
		flags |= F_REPLAY;
	}
	if (s.op == OP_REPLAY_ENTER) {
		const int d = s.arg;
		const bool ok = s.enters == 1 && s.enterSid == d && !s.exits && !s.reenters && (!cfg::HEAD || s.rootEnters == 1);
		if (!ok) V("C11", "replayEnter-trace", fmt("replayEnter(%d) ran %s rootEnters=%u; %s", d, applied().c_str(), s.rootEnters, tail().c_str()));
		if (HAS_HISTORY) { in.prevExpected = Req{}; in.prevExpected.valid = true; in.prevExpected.dest = static_cast<uint8_t>(d); in.prevLenientEmptyOk = false; }
		flags |= F_REPLAY;
	}
	// calls that are not processing points deliver no guard / lifecycle callbacks (handled where they occur)

	Ev e; e.kind = EV_API_END; e.inst = in.slot; e.code = s.op; e.a = in.cur >= 0 ? static_cast<uint8_t>(in.cur) : 255;
	push(e);
	cur = nullptr;
}

}
