// E2 contmon: reference-model monitors for FFSM2's containers and bit streams.
//   C20: BitArrayT / StaticArrayT / DynamicArrayT  (capacities 1..255)
//   C13: StreamBufferT / BitWriteStreamT / BitReadStreamT (capacities 1..255), bitWidth()
//   C10: TaskListT (free-list of plan task slots)
// Every operation is checked against the model immediately after it ran.
// One translation unit per property (-DCONT_PROP=20|13|10) to keep builds parallel.

#define FFSM2_ENABLE_PLANS
#define FFSM2_ENABLE_SERIALIZATION
#include VERIF_FFSM2_HEADER

#include "vh.hpp"

#include <stdarg.h>

#include <algorithm>
#include <thread>
#include <utility>

#ifndef CONT_PROP
#error "CONT_PROP must be defined"
#endif
// capacities compiled into this translation unit (the driver builds one binary per chunk)
#ifndef CONT_LO
#define CONT_LO 1
#endif
#ifndef CONT_HI
#define CONT_HI 255
#endif
#ifndef CONT_STATIC_ITER
#define CONT_STATIC_ITER 1
#endif

using vh::Rng;

static vh::Reporter g_rep;
static vh::Stats g_stats;
static std::unordered_set<uint64_t> g_sigs;
static std::vector<std::string> g_samples;
static vh::Args g_args;

static const char* PROP = CONT_PROP == 20 ? "C20" : CONT_PROP == 13 ? "C13" : "C10";

static void viol(const std::string& key, const std::string& msg) {
	g_rep.report(PROP, key, msg);
}

static std::string fmt(const char* f, ...) __attribute__((format(printf, 1, 2)));
static std::string fmt(const char* f, ...) {
	char buf[1024];
	va_list ap;
	va_start(ap, f);
	vsnprintf(buf, sizeof buf, f, ap);
	va_end(ap);
	return buf;
}

struct OpLog {
	std::string text;
	uint64_t sig = 1469598103934665603ull;
	unsigned n = 0;
	void op(const char* name, long a = -1, long b = -1) {
		sig = vh::mix(sig, vh::mix(reinterpret_cast<uintptr_t>(name) & 0, a * 1315423911u + b));
		for (const char* p = name; *p; ++p) sig = vh::mix(sig, static_cast<unsigned char>(*p));
		if (n < 48) {
			text += name;
			if (a >= 0) { text += "("; text += std::to_string(a); if (b >= 0) { text += ","; text += std::to_string(b); } text += ")"; }
			text += " ";
		} else if (n == 48) text += "...";
		++n;
	}
};

static void keepSample(const std::string& what, unsigned cap, const OpLog& l) {
	if (g_samples.size() < 3 || (g_samples.size() < 6 && l.n > 20))
		g_samples.push_back("{\"container\":\"" + what + "\",\"capacity\":" + std::to_string(cap) + ",\"ops\":\"" + vh::jesc(l.text) + "\"}");
}

// ===========================================================================
#if CONT_PROP == 20

template <unsigned C>
static void bitArrayCase(Rng& rng, unsigned maxOps) {
	using BA = ffsm2::detail::BitArrayT<C>;
	BA a, b;
	std::vector<char> ma(C, 0), mb(C, 0);
	bool setAllSinceClear = false;
	bool nontrivial = false;
	OpLog l;
	const char* lastOp = "ctor";

	auto modelEmpty = [&]() { for (char c : ma) if (c) return false; return true; };
	auto checkAll = [&]() {
		for (unsigned j = 0; j < C; ++j)
			if (a.get(j) != (ma[j] != 0)) {
				viol(fmt("bitarray.get!=model|after=%s", lastOp),
					 fmt("BitArrayT<%u>: get(%u)=%d but the model says %d after %s; history: %s", C, j, int(a.get(j)), int(ma[j]), lastOp, l.text.c_str()));
				return;
			}
		const bool me = modelEmpty();
		if (a.empty() != me)
			viol(fmt("bitarray.empty!=model|model=%s|setall=%d|cap%%8%s", me ? "empty" : "nonempty", int(setAllSinceClear), C % 8 ? "!=0" : "==0"),
				 fmt("BitArrayT<%u>: empty()=%d but the model set is %s after %s; history: %s", C, int(a.empty()), me ? "empty" : "non-empty", lastOp, l.text.c_str()));
		g_stats.add("bitarray_full_comparisons");
	};

	checkAll();
	const unsigned nOps = 1 + rng.below(maxOps);
	for (unsigned k = 0; k < nOps; ++k) {
		const unsigned op = rng.below(16);
		const unsigned i = rng.below(C);
		if (op < 4) { a.set(i); ma[i] = 1; l.op("set", i); lastOp = "set(i)"; g_stats.add2("ops", "bit.set(i)"); }
		else if (op < 8) { a.clear(i); ma[i] = 0; l.op("clear", i); lastOp = "clear(i)"; g_stats.add2("ops", "bit.clear(i)"); }
		else if (op < 10) {
			l.op("get", i); g_stats.add2("ops", "bit.get(i)");
			if (a.get(i) != (ma[i] != 0))
				viol("bitarray.get!=model|probe", fmt("BitArrayT<%u>: get(%u) wrong; history: %s", C, i, l.text.c_str()));
			continue;
		}
		else if (op == 10) { a.set(); std::fill(ma.begin(), ma.end(), 1); setAllSinceClear = true; nontrivial = true; l.op("setAll"); lastOp = "set()"; g_stats.add2("ops", "bit.set()"); }
		else if (op == 11) { a.clear(); std::fill(ma.begin(), ma.end(), 0); setAllSinceClear = false; l.op("clearAll"); lastOp = "clear()"; g_stats.add2("ops", "bit.clear()"); }
		else if (op < 14) {
			// build a random operand, then and-assign
			const unsigned how = rng.below(4);
			if (how == 0) { b.set(); std::fill(mb.begin(), mb.end(), 1); }
			else if (how == 1) { b.clear(); std::fill(mb.begin(), mb.end(), 0); }
			for (unsigned t = rng.below(C + 1); t; --t) {
				const unsigned j = rng.below(C);
				if (rng.chance(1, 2)) { b.set(j); mb[j] = 1; } else { b.clear(j); mb[j] = 0; }
			}
			a &= b;
			for (unsigned j = 0; j < C; ++j) ma[j] = ma[j] && mb[j];
			for (unsigned j = 0; j < C; ++j)
				if (b.get(j) != (mb[j] != 0)) { viol("bitarray.and-assign-disturbed-operand", fmt("BitArrayT<%u>: operand changed by &=", C)); break; }
			nontrivial = true;
			l.op("andAssign", how); lastOp = "&="; g_stats.add2("ops", "bit.&=");
		}
		else if (op == 14) {
			// drain: clear every member one by one in random order; the set must end up empty
			std::vector<unsigned> members;
			for (unsigned j = 0; j < C; ++j) if (ma[j]) members.push_back(j);
			for (size_t x = members.size(); x > 1; --x) std::swap(members[x - 1], members[rng.below(static_cast<uint32_t>(x))]);
			for (unsigned j : members) { a.clear(j); ma[j] = 0; }
			l.op("drain", static_cast<long>(members.size())); lastOp = "drain"; nontrivial = nontrivial || !members.empty();
			g_stats.add2("ops", "bit.drain", members.size());
		}
		else { l.op("empty"); g_stats.add2("ops", "bit.empty()"); lastOp = "empty()"; }
		checkAll();
	}
	g_stats.add("cases");
	g_stats.add("cases_bitarray");
	if (nontrivial) g_sigs.insert(vh::mix(l.sig, C));
	keepSample("BitArrayT", C, l);
}

struct Five { uint8_t b[5]; bool operator!=(const Five& o) const { return memcmp(b, o.b, 5) != 0; } bool operator==(const Five& o) const { return !(*this != o); } };

// an element type whose move differs from its copy: a moved-from element is recognisably spent
struct Tok {
	uint32_t v = 0;
	Tok() = default;
	explicit Tok(uint32_t x) : v(x) {}
	Tok(const Tok& o) : v(o.v) {}
	Tok(Tok&& o) noexcept : v(o.v) { o.v = 0xDEADBEEFu; }
	Tok& operator=(const Tok& o) { v = o.v; return *this; }
	Tok& operator=(Tok&& o) noexcept { v = o.v; o.v = 0xDEADBEEFu; return *this; }
	bool operator==(const Tok& o) const { return v == o.v; }
	bool operator!=(const Tok& o) const { return v != o.v; }
};

template <typename T> static T mk(uint64_t v);
template <> Tok mk<Tok>(uint64_t v) { return Tok(static_cast<uint32_t>(v) & 0x7fffffffu); }
template <> uint8_t mk<uint8_t>(uint64_t v) { return static_cast<uint8_t>(v); }
template <> uint32_t mk<uint32_t>(uint64_t v) { return static_cast<uint32_t>(v); }
template <> Five mk<Five>(uint64_t v) { Five f; for (int i = 0; i < 5; ++i) f.b[i] = static_cast<uint8_t>(v >> (8 * i)); return f; }

template <typename T, unsigned C>
static void staticArrayCase(Rng& rng, unsigned maxOps, const char* tname) {
	using SA = ffsm2::detail::StaticArrayT<T, C>;
	SA a;
	std::vector<T> m(C, T{});
	OpLog l;
	bool nontrivial = false;
	bool clearedOnly = false; // all elements hold the clear() value

	auto checkAll = [&](const char* after) {
		const SA& ca = a;
		for (unsigned j = 0; j < C; ++j)
			if (a[j] != m[j] || ca[j] != m[j]) {
				viol(fmt("staticarray.element!=model|after=%s|T=%s", after, tname), fmt("StaticArrayT<%s,%u>[%u] differs from the model after %s; %s", tname, C, j, after, l.text.c_str()));
				return;
			}
		unsigned n = 0, n2 = 0;
#if CONT_STATIC_ITER
		// a value stored while a read-only traversal is under way is the value the traversal meets at that index
		for (const T& x : ca) { if (n == 0 && C > 1) { a[C - 1] = m[0]; m[C - 1] = m[0]; } if (n >= C || x != m[n]) { viol(fmt("staticarray.iteration|T=%s", tname), fmt("StaticArrayT<%s,%u>: const iteration element %u wrong after %s", tname, C, n, after)); return; } ++n; }
		{
			unsigned nc = 0;
			for (auto it = a.cbegin(); it != a.cend(); ++it) { if (nc == 0 && C > 2) { a[C - 1] = m[C / 2]; m[C - 1] = m[C / 2]; } if (nc >= C || *it != m[nc]) { viol(fmt("staticarray.iteration|cbegin|T=%s", tname), fmt("StaticArrayT<%s,%u>: cbegin/cend iteration element %u wrong after %s", tname, C, nc, after)); return; } ++nc; }
			if (nc != C) viol(fmt("staticarray.iteration-count|cbegin|T=%s", tname), fmt("StaticArrayT<%s,%u>: cbegin/cend visited %u of %u", tname, C, nc, C));
		}
		for (T& x : a) { if (n2 >= C || x != m[n2]) { viol(fmt("staticarray.iteration|T=%s", tname), fmt("StaticArrayT<%s,%u>: iteration element %u wrong after %s", tname, C, n2, after)); return; } ++n2; }
		g_stats.add("staticarray_iterations", 2);
#else
		n = n2 = C; // StaticArrayT::begin()/end() cannot be instantiated on this tree (reported by the driver)
#endif
		if (n != C || n2 != C || a.count() != C)
			viol(fmt("staticarray.iteration-count|T=%s", tname), fmt("StaticArrayT<%s,%u>: iteration visited %u/%u elements, count()=%u", tname, C, n, n2, unsigned(a.count())));
		g_stats.add("staticarray_full_comparisons");
	};

	// fresh array is value-initialised
	checkAll("ctor");
	const unsigned nOps = 1 + rng.below(maxOps);
	for (unsigned k = 0; k < nOps; ++k) {
		const unsigned op = rng.below(10);
		if (op < 5) {
			const unsigned i = rng.below(C);
			const T v = mk<T>(rng.next());
			if (rng.chance(1, 2)) a[i] = v; else a[static_cast<int>(i)] = v; // both index types
			m[i] = v; clearedOnly = false;
			l.op("store", i); g_stats.add2("ops", "sarr.store");
			checkAll("store");
		} else if (op < 7) {
			const T v = mk<T>(rng.next());
			// the value is handed over as a named constant, as a temporary, or as an expiring named object
			switch (rng.below(3)) {
			case 0: a.fill(v); break;
			case 1: a.fill(T(v)); break;
			default: { T named = v; a.fill(static_cast<T&&>(named)); break; }
			}
			std::fill(m.begin(), m.end(), v); clearedOnly = false; nontrivial = true;
			l.op("fill"); g_stats.add2("ops", "sarr.fill");
			checkAll("fill");
		} else if (op < 9) {
			a.clear(); nontrivial = true;
			// the clear value is whatever clear() writes — it must be one value everywhere
			const T cv = a[0];
			std::fill(m.begin(), m.end(), cv); clearedOnly = true;
			l.op("clear"); g_stats.add2("ops", "sarr.clear");
			checkAll("clear");
			if (!a.empty())
				viol(fmt("staticarray.empty-false-after-clear|T=%s", tname), fmt("StaticArrayT<%s,%u>: empty() false right after clear()", tname, C));
		} else {
			l.op("empty"); g_stats.add2("ops", "sarr.empty");
			if (clearedOnly && !a.empty())
				viol(fmt("staticarray.empty-false-on-cleared|T=%s", tname), fmt("StaticArrayT<%s,%u>: empty() false, all elements hold the clear value", tname, C));
			if (!clearedOnly) {
				// empty() must be false as soon as one element differs from the clear value
				SA probe; probe.clear(); const T cv = probe[0];
				bool all = true; for (auto& x : m) if (x != cv) all = false;
				if (a.empty() != all)
					viol(fmt("staticarray.empty!=model|T=%s", tname), fmt("StaticArrayT<%s,%u>: empty()=%d, model=%d; %s", tname, C, int(a.empty()), int(all), l.text.c_str()));
			}
		}
	}
	// filling constructor
	{
		const T v = mk<T>(rng.next());
		SA f{v};
		for (unsigned j = 0; j < C; ++j) if (f[j] != v) { viol(fmt("staticarray.fill-ctor|T=%s", tname), fmt("StaticArrayT<%s,%u>{v}[%u] != v", tname, C, j)); break; }
	}
	g_stats.add("cases"); g_stats.add("cases_staticarray");
	if (nontrivial) g_sigs.insert(vh::mix(vh::mix(l.sig, C), reinterpret_cast<uintptr_t>(tname)));
	keepSample(std::string("StaticArrayT<") + tname + ">", C, l);
}

// dst += src where src is a DynamicArrayT of capacity S holding as many random elements as fit both
template <typename T, unsigned C, unsigned S>
static unsigned appendFrom(ffsm2::detail::DynamicArrayT<T, C>& a, std::vector<T>& m, Rng& rng, unsigned room) {
	ffsm2::detail::DynamicArrayT<T, S> other;
	const unsigned most = room < S ? room : S;
	const unsigned cnt = rng.chance(1, 3) ? most : rng.below(most + 1);
	for (unsigned t = 0; t < cnt; ++t) { const T v = mk<T>(rng.next()); other.emplace(v); m.push_back(v); }
	a += other;
	return cnt;
}

template <typename T, unsigned C>
static void dynamicArrayCase(Rng& rng, unsigned maxOps, const char* tname) {
	using DA = ffsm2::detail::DynamicArrayT<T, C>;
	DA a;
	std::vector<T> m;
	OpLog l;
	bool nontrivial = false;

	auto checkAll = [&](const char* after) {
		const DA& ca = a;
		if (a.count() != m.size() || a.empty() != m.empty()) {
			viol(fmt("dynarray.count!=model|after=%s|T=%s", after, tname), fmt("DynamicArrayT<%s,%u>: count()=%u empty()=%d, model size %zu after %s; %s", tname, C, unsigned(a.count()), int(a.empty()), m.size(), after, l.text.c_str()));
			return;
		}
		for (unsigned j = 0; j < m.size(); ++j)
			if (a[j] != m[j] || ca[j] != m[j]) { viol(fmt("dynarray.element!=model|after=%s|T=%s", after, tname), fmt("DynamicArrayT<%s,%u>[%u] differs after %s; %s", tname, C, j, after, l.text.c_str())); return; }
		unsigned n = 0;
		for (const T& x : ca) { if (n == 0 && m.size() > 1) { a[static_cast<unsigned>(m.size() - 1)] = m[0]; m[m.size() - 1] = m[0]; } if (n >= m.size() || x != m[n]) { viol(fmt("dynarray.iteration|T=%s", tname), fmt("DynamicArrayT<%s,%u>: iteration element %u wrong after %s", tname, C, n, after)); return; } ++n; }
		{
			unsigned nc = 0;
			for (auto it = a.cbegin(); it != a.cend(); ++it) { if (nc == 0 && m.size() > 2) { a[static_cast<unsigned>(m.size() - 1)] = m[m.size() / 2]; m[m.size() - 1] = m[m.size() / 2]; } if (nc >= m.size() || *it != m[nc]) { viol(fmt("dynarray.iteration|cbegin|T=%s", tname), fmt("DynamicArrayT<%s,%u>: cbegin/cend iteration element %u wrong after %s", tname, C, nc, after)); return; } ++nc; }
			if (nc != m.size()) viol(fmt("dynarray.iteration-count|cbegin|T=%s", tname), fmt("DynamicArrayT<%s,%u>: cbegin/cend visited %u of %zu", tname, C, nc, m.size()));
		}
		unsigned n2 = 0;
		for (T& x : a) { if (n2 >= m.size() || x != m[n2]) { viol(fmt("dynarray.iteration|T=%s", tname), fmt("DynamicArrayT<%s,%u>: iteration element %u wrong after %s", tname, C, n2, after)); return; } ++n2; }
		if (n != m.size() || n2 != m.size()) viol(fmt("dynarray.iteration-count|T=%s", tname), fmt("DynamicArrayT<%s,%u>: visited %u/%u of %zu", tname, C, n, n2, m.size()));
		g_stats.add("dynarray_full_comparisons");
	};

	checkAll("ctor");
	const unsigned nOps = 1 + rng.below(maxOps);
	for (unsigned k = 0; k < nOps; ++k) {
		const unsigned op = rng.below(12);
		if (op < 6) {
			if (m.size() >= C) { if (rng.chance(1, 3)) { a.clear(); m.clear(); l.op("clear"); checkAll("clear"); } continue; }
			const T v = mk<T>(rng.next());
			const unsigned how = rng.below(4);
			unsigned idx = 0;
			if (how == 0) {
				// inserted from a named, non-const object: the object is copied, not consumed; now and then the object is an
				// element of the array itself
				if (!m.empty() && rng.chance(1, 4)) {
					const unsigned src = rng.below(static_cast<uint32_t>(m.size()));
					idx = a.emplace(a[src]);
					m.push_back(m[src]);
					l.op("appendOwnElement", src); g_stats.add2("ops", "darr.append-own-element");
					if (idx != m.size() - 1) viol(fmt("dynarray.emplace-index|T=%s", tname), fmt("DynamicArrayT<%s,%u>: emplace returned %u, expected %zu", tname, C, idx, m.size() - 1));
					if (m.size() == C) nontrivial = true;
					checkAll("append");
					continue;
				}
				T named = v;
				idx = a.emplace(named);
				if (named != v) viol(fmt("dynarray.emplace-consumed-its-argument|T=%s", tname), fmt("DynamicArrayT<%s,%u>: emplace(lvalue) changed the object it was given; %s", tname, C, l.text.c_str()));
			}
			else if (how == 1) { T tmp = v; idx = a.emplace(static_cast<T&&>(tmp)); }
			else if (how == 2) { a += v; idx = static_cast<unsigned>(m.size()); }
			else { T tmp = v; a += static_cast<T&&>(tmp); idx = static_cast<unsigned>(m.size()); }
			if (idx != m.size()) viol(fmt("dynarray.emplace-index|T=%s", tname), fmt("DynamicArrayT<%s,%u>: emplace returned %u, expected %zu", tname, C, idx, m.size()));
			m.push_back(v);
			if (m.size() == C) nontrivial = true;
			l.op("append", how); g_stats.add2("ops", "darr.append");
			checkAll("append");
		} else if (op < 8) {
			// += other array (as much as fits); the source has the same or a different capacity
			const unsigned room = C - static_cast<unsigned>(m.size());
			constexpr unsigned S_HALF = (C + 1) / 2, S_LESS = C > 1 ? C - 1 : 1, S_MORE = C < 255 ? C + 1 : C, S_BIG = C < 128 ? 2 * C + 1 : 255;
			unsigned cnt = 0, srcCap = C;
			switch (rng.below(7)) {
				case 0: cnt = appendFrom<T, C, 1>(a, m, rng, room); srcCap = 1; break;
				case 1: cnt = appendFrom<T, C, S_HALF>(a, m, rng, room); srcCap = S_HALF; break;
				case 2: cnt = appendFrom<T, C, S_LESS>(a, m, rng, room); srcCap = S_LESS; break;
				case 3: cnt = appendFrom<T, C, S_MORE>(a, m, rng, room); srcCap = S_MORE; break;
				case 4: cnt = appendFrom<T, C, S_BIG>(a, m, rng, room); srcCap = S_BIG; break;
				default: cnt = appendFrom<T, C, C>(a, m, rng, room); break;
			}
			nontrivial = nontrivial || cnt > 1;
			l.op("appendArray", cnt); l.op("srcCapacity", srcCap); g_stats.add2("ops", srcCap == C ? "darr.+=array" : srcCap < C ? "darr.+=smaller-array" : "darr.+=larger-array");
			checkAll("+=array");
		} else if (op < 9) {
			a.clear(); m.clear(); l.op("clear"); g_stats.add2("ops", "darr.clear");
			checkAll("clear");
		} else if (!m.empty()) {
			const unsigned i = rng.below(static_cast<uint32_t>(m.size()));
			const T v = mk<T>(rng.next());
			a[i] = v; m[i] = v; l.op("store", i); g_stats.add2("ops", "darr.store");
			checkAll("store");
		}
	}
	g_stats.add("cases"); g_stats.add("cases_dynarray");
	if (nontrivial) g_sigs.insert(vh::mix(vh::mix(l.sig, C), reinterpret_cast<uintptr_t>(tname) ^ 77));
	keepSample(std::string("DynamicArrayT<") + tname + ">", C, l);
}

template <unsigned C>
static void capacityCases(Rng& rng, unsigned casesPer, unsigned maxOps) {
	for (unsigned c = 0; c < casesPer; ++c) {
		bitArrayCase<C>(rng, maxOps);
		staticArrayCase<uint8_t, C>(rng, maxOps, "u8");
		staticArrayCase<uint32_t, C>(rng, maxOps, "u32");
		staticArrayCase<Five, C>(rng, maxOps, "five");
		staticArrayCase<Tok, C>(rng, maxOps, "move-aware");
		dynamicArrayCase<uint8_t, C>(rng, maxOps, "u8");
		dynamicArrayCase<uint32_t, C>(rng, maxOps, "u32");
		dynamicArrayCase<Five, C>(rng, maxOps, "five");
		dynamicArrayCase<Tok, C>(rng, maxOps, "move-aware");
	}
	g_stats.add2("capacities", std::to_string(C), casesPer);
}

using CapFn = void (*)(Rng&, unsigned, unsigned);
template <size_t... I>
static std::vector<CapFn> capTable(std::index_sequence<I...>) { return {&capacityCases<I + CONT_LO>...}; }

static void run() {
	const auto table = capTable(std::make_index_sequence<CONT_HI - CONT_LO + 1>{});
	const unsigned casesPer = static_cast<unsigned>(g_args.num("cases", g_args.thorough() ? 400 : 12));
	const unsigned maxOps = static_cast<unsigned>(g_args.num("ops", g_args.thorough() ? 400 : 120));
	for (unsigned c = CONT_LO; c <= CONT_HI; ++c) {
		Rng rng(g_args.seed * 1000003ull + c);
		table[c - CONT_LO](rng, casesPer, maxOps);
	}
}

#endif // CONT_PROP == 20

// ===========================================================================
#if CONT_PROP == 13

// reference: a plain bit vector
struct RefBits {
	std::vector<char> bits;
	explicit RefBits(unsigned n) : bits(n, 0) {}
	void write(unsigned at, unsigned w, uint32_t v) { for (unsigned i = 0; i < w; ++i) bits[at + i] = (v >> i) & 1; }
	uint32_t read(unsigned at, unsigned w) const { uint32_t v = 0; for (unsigned i = 0; i < w; ++i) v |= uint32_t(bits[at + i]) << i; return v; }
	uint8_t byte(unsigned k) const { uint8_t v = 0; for (unsigned i = 0; i < 8; ++i) if (k * 8 + i < bits.size() && bits[k * 8 + i]) v |= uint8_t(1u << i); return v; }
};

template <unsigned CAP, unsigned W>
static void wr(ffsm2::detail::BitWriteStreamT<CAP>& s, uint32_t v) { s.template write<W>(static_cast<ffsm2::UBitWidth<W>>(v)); }
template <unsigned CAP, unsigned W>
static uint32_t rd(ffsm2::detail::BitReadStreamT<CAP>& s) { return s.template read<W>(); }

template <unsigned CAP>
struct StreamOps {
	using WS = ffsm2::detail::BitWriteStreamT<CAP>;
	using RS = ffsm2::detail::BitReadStreamT<CAP>;
	using WFn = void (*)(WS&, uint32_t);
	using RFn = uint32_t (*)(RS&);
	template <size_t... I> static std::vector<WFn> wtab(std::index_sequence<I...>) { return {&wr<CAP, I + 1>...}; }
	template <size_t... I> static std::vector<RFn> rtab(std::index_sequence<I...>) { return {&rd<CAP, I + 1>...}; }
};

static uint32_t pickValue(Rng& rng, unsigned w, unsigned* kind) {
	const uint32_t mask = w == 32 ? 0xffffffffu : ((1u << w) - 1);
	const unsigned k = rng.below(6);
	*kind = k;
	switch (k) {
	case 0: return 0;
	case 1: return mask;
	case 2: return (1u << rng.below(w)) & mask;
	case 3: return mask & ~(1u << rng.below(w));
	default: return static_cast<uint32_t>(rng.next()) & mask;
	}
}

struct Field { unsigned w; uint32_t v; };

template <unsigned CAP>
static void runFields(Rng& rng, const std::vector<Field>& fields, const char* kind, unsigned startCursor = 0);

template <unsigned CAP>
static void streamCase(Rng& rng) {
	std::vector<Field> fields;
	unsigned total = 0;
	while (true) {
		const unsigned room = CAP - total;
		if (room == 0 || (fields.size() > 0 && rng.chance(1, 12))) break;
		unsigned w = 1 + rng.below(room < 32 ? room : 32);
		if (rng.chance(1, 4)) w = std::min(room, 1 + rng.below(8) * 4 + rng.below(2)); // clusters near byte multiples
		if (w == 0) w = 1;
		unsigned k; fields.push_back({w, pickValue(rng, w, &k)});
		total += w;
	}
	runFields<CAP>(rng, fields, "cases_field_sequences");
	// the same kind of sequence written by a stream that is opened at a non-zero cursor on a used buffer
	if (CAP > 1) {
		const unsigned start = 1 + rng.below(CAP - 1);
		std::vector<Field> f2;
		unsigned tot = start;
		while (tot < CAP && f2.size() < 6) {
			const unsigned room = CAP - tot;
			const unsigned w = 1 + rng.below(room < 32 ? room : 32);
			unsigned k; f2.push_back({w, pickValue(rng, w, &k)});
			tot += w;
		}
		if (!f2.empty()) runFields<CAP>(rng, f2, "cases_field_sequences_from_start_cursor", start);
	}
}

// every (start offset 0..7, width 1..32) that fits x {0, all-ones, every walking 1, every walking 0}
template <unsigned CAP>
static void streamSingleExhaustive(Rng& rng) {
	for (unsigned o = 0; o < 8; ++o)
		for (unsigned w = 1; w <= 32; ++w) {
			if (o + w > CAP) continue;
			const uint32_t mask = w == 32 ? 0xffffffffu : ((1u << w) - 1);
			std::vector<uint32_t> vals{0u, mask};
			for (unsigned b = 0; b < w; ++b) { vals.push_back(1u << b); vals.push_back(mask & ~(1u << b)); }
			for (uint32_t v : vals) {
				std::vector<Field> fields;
				if (o) fields.push_back({o, (o & 1) ? ((1u << o) - 1) : 0u}); // leading field fixes the start offset
				fields.push_back({w, v});
				runFields<CAP>(rng, fields, "cases_single_field_exhaustive");
			}
		}
}

template <unsigned CAP>
static void runFields(Rng& rng, const std::vector<Field>& fields, const char* kind, unsigned startCursor) {
	using Buf = ffsm2::detail::StreamBufferT<CAP>;
	static const auto wt = StreamOps<CAP>::wtab(std::make_index_sequence<32>{});
	static const auto rt = StreamOps<CAP>::rtab(std::make_index_sequence<32>{});
	constexpr unsigned BYTES = (CAP + 7) / 8;
	static_assert(sizeof(Buf) == BYTES, "buffer is exactly its bytes");
	OpLog l;

	// canaries around the buffer object
	struct Guarded { uint8_t pre[16]; Buf buf; uint8_t post[16]; } g;
	memset(g.pre, 0xA5, sizeof g.pre); memset(g.post, 0x5A, sizeof g.post);
	// dirty the buffer first: the write stream must start from a cleared buffer
	memset(static_cast<void*>(&g.buf), 0xFF, sizeof g.buf);
	// (not always one constant: left-over content with zero bytes in the middle is what a reused buffer looks like)
	if (rng.chance(2, 3)) for (unsigned j = 0; j < BYTES; ++j) g.buf.data()[j] = rng.chance(1, 3) ? 0x00 : static_cast<uint8_t>(rng.next() | 1);

	RefBits ref(BYTES * 8);
	ffsm2::detail::BitWriteStreamT<CAP> ws{g.buf, static_cast<ffsm2::Long>(startCursor)};
	unsigned at = startCursor;
	if (ws.cursor() != startCursor) viol("stream.write-cursor-initial", fmt("BitWriteStreamT<%u>: initial cursor %u, opened at %u", CAP, unsigned(ws.cursor()), startCursor));
	for (unsigned j = 0; j < BYTES; ++j)
		if (g.buf.data()[j] != 0) { viol("stream.not-cleared-on-open", fmt("BitWriteStreamT<%u>: buffer byte %u = 0x%02x after opening the write stream", CAP, j, g.buf.data()[j])); break; }

	for (const Field& f : fields) {
		wt[f.w - 1](ws, f.v);
		ref.write(at, f.w, f.v);
		at += f.w;
		l.op("w", f.w, f.v & 0xffff);
		g_stats.add2("ops", "stream.write"); g_stats.add2("widths", std::to_string(f.w));
		g_stats.add2("start_offsets", std::to_string((at - f.w) & 7));
		if (ws.cursor() != at)
			viol(fmt("stream.write-cursor|w=%u", f.w), fmt("BitWriteStreamT<%u>: cursor %u after writing %u bits at %u (expected %u)", CAP, unsigned(ws.cursor()), f.w, at - f.w, at));
		for (unsigned j = 0; j < BYTES; ++j)
			if (g.buf.data()[j] != ref.byte(j)) {
				viol(fmt("stream.buffer!=reference|%s", j * 8 >= at ? "past-cursor" : "within"),
					 fmt("BitWriteStreamT<%u>: byte %u is 0x%02x, reference 0x%02x after writing width %u value 0x%x at bit %u; fields: %s", CAP, j, g.buf.data()[j], ref.byte(j), f.w, f.v, at - f.w, l.text.c_str()));
				break;
			}
	}
	for (unsigned j = 0; j < 16; ++j)
		if (g.pre[j] != 0xA5 || g.post[j] != 0x5A) { viol("stream.write-outside-buffer", fmt("BitWriteStreamT<%u>: canary byte damaged", CAP)); break; }

	ffsm2::detail::BitReadStreamT<CAP> rs{g.buf, static_cast<ffsm2::Long>(startCursor)};
	unsigned rat = startCursor;
	if (rs.cursor() != startCursor) viol("stream.read-cursor-initial", fmt("BitReadStreamT<%u>: initial cursor %u, opened at %u", CAP, unsigned(rs.cursor()), startCursor));
	for (const Field& f : fields) {
		const uint32_t v = rt[f.w - 1](rs);
		rat += f.w;
		g_stats.add2("ops", "stream.read");
		if (v != f.v)
			viol(fmt("stream.read!=written|w=%u|off=%u", f.w, (rat - f.w) & 7), fmt("BitReadStreamT<%u>: read<%u> at bit %u returned 0x%x, written 0x%x; fields: %s", CAP, f.w, rat - f.w, v, f.v, l.text.c_str()));
		if (rs.cursor() != rat)
			viol(fmt("stream.read-cursor|w=%u", f.w), fmt("BitReadStreamT<%u>: cursor %u after reading to bit %u", CAP, unsigned(rs.cursor()), rat));
	}
	// the same fields with both streams opened on one buffer up front: field by field, written then read at once
	// (a reader is a view of the buffer, whenever it was opened)
	{
		Buf shared;
		memset(static_cast<void*>(&shared), 0xFF, sizeof shared);
		ffsm2::detail::BitWriteStreamT<CAP> ws2{shared, static_cast<ffsm2::Long>(startCursor)};
		ffsm2::detail::BitReadStreamT<CAP> rs2{shared, static_cast<ffsm2::Long>(startCursor)};
		unsigned pos = startCursor;
		for (const Field& f : fields) {
			wt[f.w - 1](ws2, f.v);
			const uint32_t v = rt[f.w - 1](rs2);
			pos += f.w;
			g_stats.add2("ops", "stream.write-then-read");
			if (v != f.v) {
				viol(fmt("stream.read!=written|interleaved|w=%u", f.w), fmt("BitReadStreamT<%u> opened before the write: read<%u> at bit %u returned 0x%x, written 0x%x; fields: %s", CAP, f.w, pos - f.w, v, f.v, l.text.c_str()));
				break;
			}
			if (rs2.cursor() != pos || ws2.cursor() != pos) { viol("stream.cursor|interleaved", fmt("BitStreams<%u>: cursors %u/%u after field ending at bit %u", CAP, unsigned(ws2.cursor()), unsigned(rs2.cursor()), pos)); break; }
		}
		if (memcmp(&shared, &g.buf, sizeof shared) != 0) viol("stream.buffer!=reference|interleaved", fmt("StreamBufferT<%u>: interleaved writing produced other bytes than sequential writing", CAP));
	}
	// a value that is handed over as an lvalue living in the very buffer being written (the byte the cursor stands in, or
	// any other byte of it): what is stored is the value at the moment of the call
	if constexpr (CAP >= 16) {
		Buf own;
		memset(static_cast<void*>(&own), 0xFF, sizeof own);
		ffsm2::detail::BitWriteStreamT<CAP> wa{own};
		RefBits refA(BYTES * 8);
		unsigned pos = 0;
		for (const Field& f : fields) {
			if (pos + f.w + 8 > CAP) break;
			wt[f.w - 1](wa, f.v);
			refA.write(pos, f.w, f.v);
			pos += f.w;
			// now 8 bits taken straight from a byte of the buffer
			const unsigned srcByte = rng.chance(2, 3) ? pos / 8 : rng.below((pos + 7) / 8 ? (pos + 7) / 8 : 1);
			const uint8_t value = own.data()[srcByte];
			wa.template write<8>(own.data()[srcByte]);
			refA.write(pos, 8, value);
			pos += 8;
			g_stats.add2("ops", "stream.write-aliased-byte");
			bool same = wa.cursor() == pos;
			for (unsigned j = 0; same && j < BYTES; ++j) same = own.data()[j] == refA.byte(j);
			if (!same) {
				viol(fmt("stream.buffer!=reference|value-aliases-buffer|off=%u", (pos - 8) & 7), fmt("BitWriteStreamT<%u>: write<8>(buffer byte %u = 0x%02x) at bit %u did not store that value; fields: %s", CAP, srcByte, value, pos - 8, l.text.c_str()));
				break;
			}
		}
	}
	// buffer equality operators agree with byte comparison
	{
		Buf other; memcpy(static_cast<void*>(&other), &g.buf, sizeof other);
		if (!(other == g.buf) || (other != g.buf)) viol("stream.buffer-equality", fmt("StreamBufferT<%u>: equal buffers compare unequal", CAP));
		const unsigned j = rng.below(BYTES);
		other.data()[j] ^= uint8_t(1u << rng.below(8));
		if ((other == g.buf) || !(other != g.buf)) viol("stream.buffer-equality", fmt("StreamBufferT<%u>: different buffers compare equal", CAP));
	}
	g_stats.add("cases");
	g_stats.add(kind);
	if (fields.size() >= 2) g_sigs.insert(vh::mix(l.sig, CAP));
	if (kind[6] == 'f') keepSample("BitStream", CAP, l);
}

template <unsigned CAP>
static void capCases(Rng& rng, unsigned casesPer) {
	for (unsigned c = 0; c < casesPer; ++c) streamCase<CAP>(rng);
	streamSingleExhaustive<CAP>(rng);
	g_stats.add2("capacities", std::to_string(CAP), casesPer);
}

using CapFn = void (*)(Rng&, unsigned);
template <size_t... I>
static std::vector<CapFn> capTable(std::index_sequence<I...>) { return {&capCases<I + CONT_LO>...}; }

// bitWidth(N) bits hold every index < N (this is how the machine sizes its serial buffer)
template <unsigned N>
static void widthHoldsIndices() {
	constexpr unsigned W = ffsm2::bitWidth(N);
	static_assert(W >= 1 && W <= 8, "");
	using Buf = ffsm2::detail::StreamBufferT<1 + W>;
	for (unsigned k = 0; k < N; ++k) {
		Buf buf;
		ffsm2::detail::BitWriteStreamT<1 + W> ws{buf};
		ws.template write<1>(1);
		ws.template write<W>(static_cast<ffsm2::UBitWidth<W>>(k));
		ffsm2::detail::BitReadStreamT<1 + W> rs{buf};
		const unsigned a = rs.template read<1>();
		const unsigned v = rs.template read<W>();
		if (a != 1 || v != k) viol("bitwidth.index-does-not-fit", fmt("bitWidth(%u)=%u bits do not round-trip index %u (read %u)", N, W, k, v));
		g_stats.add("bitwidth_indices_roundtripped");
	}
	if ((1ull << W) < N) viol("bitwidth.too-narrow", fmt("bitWidth(%u)=%u < needed", N, W));
}
template <size_t... I>
static void allWidths(std::index_sequence<I...>) { int d[] = {(widthHoldsIndices<I + CONT_LO>(), 0)...}; (void) d; }

static unsigned refWidth(uint32_t v) { return v ? 32u - static_cast<unsigned>(__builtin_clz(v)) : 0u; }

static void bitWidthSweep(uint64_t from, uint64_t to, uint64_t* bad, uint32_t* firstBad) {
	uint64_t nb = 0; uint32_t fb = 0;
	for (uint64_t v = from; v < to; ++v) {
		const uint32_t x = static_cast<uint32_t>(v);
		if (ffsm2::bitWidth(x) != refWidth(x)) { if (!nb) fb = x; ++nb; }
	}
	*bad = nb; *firstBad = fb;
}

static void run() {
	const long shard = g_args.num("shard", 0), shards = g_args.num("shards", 1);
	const auto table = capTable(std::make_index_sequence<CONT_HI - CONT_LO + 1>{});
	const unsigned casesPer = static_cast<unsigned>(g_args.num("cases", g_args.thorough() ? 3000 : 120));
	for (unsigned c = CONT_LO; c <= CONT_HI; ++c) {
		Rng rng(g_args.seed * 7919ull + c);
		table[c - CONT_LO](rng, casesPer);
	}
	allWidths(std::make_index_sequence<CONT_HI - CONT_LO + 1>{});

	// bitWidth against clz
	uint64_t checked = 0;
	auto check1 = [&](uint32_t v) {
		++checked;
		if (ffsm2::bitWidth(v) != refWidth(v)) viol("bitwidth!=clz", fmt("bitWidth(0x%x)=%u, expected %u", v, unsigned(ffsm2::bitWidth(v)), refWidth(v)));
	};
	if (shard == 0) {
		check1(0);
		for (unsigned b = 0; b < 32; ++b) { const uint32_t p = 1u << b; check1(p); check1(p - 1); check1(p + 1); check1(p | (p >> 1)); }
		check1(0xffffffffu);
	}
	if (g_args.thorough() || g_args.num("bitwidth-exhaustive", 0)) {
		// every 32-bit argument: this shard's slice of the 2^32 space
		const uint64_t span = (1ull << 32) / static_cast<uint64_t>(shards);
		const uint64_t from = span * static_cast<uint64_t>(shard);
		const uint64_t to = shard == shards - 1 ? (1ull << 32) : from + span;
		uint64_t bad = 0; uint32_t fb = 0;
		bitWidthSweep(from, to, &bad, &fb);
		checked += to - from;
		g_stats.add("bitwidth_exhaustive_slice_values", to - from);
		if (bad) viol("bitwidth!=clz", fmt("bitWidth wrong for %llu arguments in [%llu,%llu), first 0x%x", (unsigned long long) bad, (unsigned long long) from, (unsigned long long) to, fb));
	} else {
		Rng rng(g_args.seed * 31ull + 5 + shard);
		const unsigned n = (1u << 24) / static_cast<unsigned>(shards);
		for (unsigned i = 0; i < n; ++i) { uint32_t v = static_cast<uint32_t>(rng.next()); v >>= rng.below(32); check1(v); }
	}
	g_stats.add("bitwidth_arguments_checked", checked);
}

#endif // CONT_PROP == 13

// ===========================================================================
#if CONT_PROP == 10

struct Pay12 { int32_t a; char b[8]; };

template <typename P> struct PayOps;
template <> struct PayOps<void> {
	static constexpr const char* name = "void";
	template <typename L> static unsigned emplace(L& l, uint8_t o, uint8_t d, uint64_t) { return l.emplace(o, d); }
	template <typename Item> static bool same(const Item&, uint64_t) { return true; }
};
template <> struct PayOps<uint64_t> {
	static constexpr const char* name = "u64";
	template <typename L> static unsigned emplace(L& l, uint8_t o, uint8_t d, uint64_t tag) { return tag & 1 ? l.emplace(o, d, tag) : l.emplace(o, d); }
	template <typename Item> static bool same(const Item& it, uint64_t tag) { return tag & 1 ? (it.payload() && *it.payload() == tag) : it.payload() == nullptr; }
};
template <> struct PayOps<Pay12> {
	static constexpr const char* name = "pay12";
	static Pay12 mk(uint64_t tag) { Pay12 p; p.a = static_cast<int32_t>(tag); memcpy(p.b, &tag, 8); return p; }
	template <typename L> static unsigned emplace(L& l, uint8_t o, uint8_t d, uint64_t tag) { return tag & 1 ? l.emplace(o, d, mk(tag)) : l.emplace(o, d); }
	template <typename Item> static bool same(const Item& it, uint64_t tag) {
		if (!(tag & 1)) return it.payload() == nullptr;
		if (!it.payload()) return false;
		Pay12 e = mk(tag), g; memcpy(&g, it.payload(), sizeof g);
		return g.a == e.a && memcmp(g.b, e.b, 8) == 0;
	}
};

template <typename P, unsigned C>
static void taskListCase(Rng& rng, unsigned maxOps) {
	using TL = ffsm2::detail::TaskListT<P, C>;
	using PO = PayOps<P>;
	TL list;
	struct Slot { bool used = false; uint8_t o = 0, d = 0; uint64_t tag = 0; };
	std::vector<Slot> m(C);
	unsigned used = 0;
	uint64_t nextTag = rng.next() | 1;
	OpLog l;
	bool reachedFull = false, recycled = false;
	unsigned removedSinceFull = 0;

	auto checkAll = [&](const char* after) {
		if (list.count() != used || list.empty() != (used == 0)) {
			viol(fmt("tasklist.count!=model|after=%s", after), fmt("TaskListT<%s,%u>: count()=%u empty()=%d, model %u after %s; %s", PO::name, C, unsigned(list.count()), int(list.empty()), used, after, l.text.c_str()));
			return false;
		}
		const TL& cl = list;
		for (unsigned i = 0; i < C; ++i)
			if (m[i].used) {
				const auto& it = cl[static_cast<ffsm2::Long>(i)];
				if (it.origin != m[i].o || it.destination != m[i].d || !PO::same(it, m[i].tag)) {
					viol(fmt("tasklist.occupied-slot-changed|after=%s", after), fmt("TaskListT<%s,%u>: slot %u holds (%u->%u), model (%u->%u) after %s; %s", PO::name, C, i, it.origin, it.destination, m[i].o, m[i].d, after, l.text.c_str()));
					return false;
				}
			}
		g_stats.add("tasklist_full_comparisons");
		return true;
	};

	auto emplaceOne = [&](const char* why) -> bool {
		const uint8_t o = static_cast<uint8_t>(rng.below(255)), d = static_cast<uint8_t>(rng.below(255));
		const uint64_t tag = (nextTag += 2) ^ (rng.chance(1, 3) ? 1 : 0);
		const unsigned idx = PO::emplace(list, o, d, tag);
		g_stats.add2("ops", "tasklist.emplace");
		if (used == C) {
			l.op("emplaceFull");
			if (idx != TL::INVALID) { viol("tasklist.emplace-succeeded-when-full", fmt("TaskListT<%s,%u>: emplace on a full list returned %u; %s", PO::name, C, idx, l.text.c_str())); return false; }
			return checkAll("emplace-full");
		}
		l.op("emplace", idx);
		if (idx == TL::INVALID || idx >= C) {
			viol(fmt("tasklist.emplace-failed-with-room|%s", why), fmt("TaskListT<%s,%u>: emplace returned %u with %u/%u used (%s); %s", PO::name, C, idx, used, C, why, l.text.c_str()));
			return false;
		}
		if (m[idx].used) { viol("tasklist.emplace-reused-occupied-slot", fmt("TaskListT<%s,%u>: emplace returned occupied slot %u; %s", PO::name, C, idx, l.text.c_str())); return false; }
		if (removedSinceFull) recycled = true;
		m[idx] = Slot{true, o, d, tag}; ++used;
		if (used == C) { reachedFull = true; removedSinceFull = 0; }
		return checkAll("emplace");
	};
	auto removeOne = [&]() -> bool {
		if (!used) return true;
		unsigned k = rng.below(used), i = 0;
		for (;; ++i) if (m[i].used && k-- == 0) break;
		list.remove(static_cast<ffsm2::Long>(i));
		m[i].used = false; --used; ++removedSinceFull;
		l.op("remove", i); g_stats.add2("ops", "tasklist.remove");
		return checkAll("remove");
	};

	checkAll("ctor");
	const unsigned nOps = 1 + rng.below(maxOps);
	// histories concentrate on the region around full capacity
	const unsigned mode = rng.below(4);
	for (unsigned k = 0; k < nOps; ++k) {
		unsigned op;
		if (mode == 0) op = rng.below(10);                       // balanced
		else if (mode == 1) op = used + 2 >= C ? rng.below(10) : 0; // fill up, then churn near full
		else if (mode == 2) op = rng.below(12) < 7 ? 0 : 5;         // growth-biased
		else op = rng.below(12) < 5 ? 0 : 5;                       // shrink-biased
		if (op < 5) { if (!emplaceOne("random")) return; }
		else if (op < 9) { if (!removeOne()) return; }
		else {
			list.clear(); for (auto& s : m) s.used = false; used = 0; removedSinceFull = 0;
			l.op("clear"); g_stats.add2("ops", "tasklist.clear");
			if (!checkAll("clear")) return;
		}
		// leak probe at random quiescent points: drain by remove, refill completely
		if (rng.chance(1, 40) || k + 1 == nOps) {
			const bool byClear = rng.chance(1, 2);
			if (byClear) { list.clear(); for (auto& s : m) s.used = false; used = 0; l.op("clear"); }
			else while (used) if (!removeOne()) return;
			if (!checkAll("drain")) return;
			for (unsigned t = 0; t < C; ++t) if (!emplaceOne(byClear ? "refill-after-clear" : "refill-after-drain")) return;
			if (!emplaceOne("overfill")) return;
			g_stats.add("tasklist_leak_probes");
			if (rng.chance(1, 2)) { while (used) if (!removeOne()) return; }
		}
	}
	g_stats.add("cases");
	if (reachedFull && recycled) g_sigs.insert(vh::mix(vh::mix(l.sig, C), reinterpret_cast<uintptr_t>(PO::name)));
	keepSample(std::string("TaskListT<") + PO::name + ">", C, l);
}

template <unsigned C>
static void capCases(Rng& rng, unsigned casesPer, unsigned maxOps) {
	for (unsigned c = 0; c < casesPer; ++c) {
		taskListCase<void, C>(rng, maxOps);
		taskListCase<uint64_t, C>(rng, maxOps);
		taskListCase<Pay12, C>(rng, maxOps);
	}
	g_stats.add2("capacities", std::to_string(C), casesPer);
}

static void run() {
	const long shard = g_args.num("shard", 0), shards = g_args.num("shards", 1);
	using Fn = void (*)(Rng&, unsigned, unsigned);
	const std::pair<unsigned, Fn> caps[] = {
		{1, &capCases<1>}, {2, &capCases<2>}, {3, &capCases<3>}, {4, &capCases<4>}, {5, &capCases<5>}, {7, &capCases<7>}, {8, &capCases<8>},
		{9, &capCases<9>}, {15, &capCases<15>}, {16, &capCases<16>}, {17, &capCases<17>}, {31, &capCases<31>}, {32, &capCases<32>}, {33, &capCases<33>},
		{63, &capCases<63>}, {64, &capCases<64>}, {127, &capCases<127>}, {128, &capCases<128>}, {253, &capCases<253>}, {254, &capCases<254>}, {255, &capCases<255>},
	};
	const unsigned casesPer = static_cast<unsigned>(g_args.num("cases", g_args.thorough() ? 6000 : 150));
	const unsigned maxOps = static_cast<unsigned>(g_args.num("ops", g_args.thorough() ? 600 : 300));
	unsigned idx = 0;
	for (auto& c : caps) {
		// split every capacity's cases across shards so that the big capacities do not dominate one process
		const unsigned per = (casesPer + static_cast<unsigned>(shards) - 1) / static_cast<unsigned>(shards);
		Rng rng(g_args.seed * 104729ull + c.first * 131ull + static_cast<uint64_t>(shard));
		c.second(rng, per, maxOps);
		++idx;
	}
}

#endif // CONT_PROP == 10

// ===========================================================================

int main(int argc, char** argv) {
	g_args = vh::parseArgs(argc, argv);
	run();
	g_stats.add("distinct_nontrivial_local", g_sigs.size());
	g_stats.emit();
	vh::writeSigs(g_args.str("sigfile", ""), g_sigs);
	for (auto& s : g_samples) vh::emitSample(s);
	return 0;
}
