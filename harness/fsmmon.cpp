// E1 fsmmon — API driver.  One binary per configuration (see fsm_cfg.hpp).
//
//   fsmmon --prop C03 --tier quick --seed 1 --cases 2000 --shard 0 --shards 4 --out DIR
//          [--mode random|enum] [--fill K] [--digestfile F] [--sigfile F] [--replay FILE]
//
// Every case = a fresh world: an authority instance driven by chooser-selected API calls whose
// callbacks are chooser-driven as well, plus (depending on features) a replica kept in sync by
// replayEnter/replayTransition, a loader receiving save()d buffers, and copies.

#include "fsm_states.hpp"

#ifdef VERIF_VALGRIND
#include <valgrind/memcheck.h>
#endif

namespace mon { World* W = nullptr; }

using namespace mon;
using cfg::Instance;

static vh::Args g_args;
static vh::Reporter g_rep;
static std::unordered_set<uint64_t> g_sigs;
static std::vector<uint64_t> g_digests;
static std::vector<std::string> g_samples;
static unsigned g_fill = 0;
static uint64_t g_allocsInScope = 0;

// ---------------------------------------------------------------------------
// allocation accounting (C18): every allocation made while an FFSM2 API call is running and
// no user code (callback / logger) is on the stack is counted

static bool g_countAllocs = false;
static inline void noteAlloc() {
	if (!g_countAllocs || !W) return;
	if (W->inLib && W->inUser == 0) ++g_allocsInScope;
}
#ifdef VERIF_COUNT_ALLOCS
void* operator new(size_t n) { noteAlloc(); void* p = malloc(n ? n : 1); if (!p) abort(); return p; }
void* operator new[](size_t n) { noteAlloc(); void* p = malloc(n ? n : 1); if (!p) abort(); return p; }
void operator delete(void* p) noexcept { if (p) noteAlloc(); free(p); }
void operator delete[](void* p) noexcept { if (p) noteAlloc(); free(p); }
void operator delete(void* p, size_t) noexcept { if (p) noteAlloc(); free(p); }
void operator delete[](void* p, size_t) noexcept { if (p) noteAlloc(); free(p); }
extern "C" {
void* __real_malloc(size_t);
void* __real_calloc(size_t, size_t);
void* __real_realloc(void*, size_t);
void __real_free(void*);
void* __wrap_malloc(size_t n) { noteAlloc(); return __real_malloc(n); }
void* __wrap_calloc(size_t a, size_t b) { noteAlloc(); return __real_calloc(a, b); }
void* __wrap_realloc(void* p, size_t n) { noteAlloc(); return __real_realloc(p, n); }
void __wrap_free(void* p) { if (p) noteAlloc(); __real_free(p); }
}
#endif

// ---------------------------------------------------------------------------
// instance storage: placement construction over pre-filled memory (C09, C17)

static constexpr size_t STORE_SIZE = sizeof(Instance) + 64;
alignas(64) static unsigned char g_store[5][STORE_SIZE];
static cfg::CtxData g_ctx[5];
static cfg::CtxData g_ctxAlt[5];
#if HAS_LOG
static cfg::Lg g_lg[5];
#endif

static void prefillBytes(unsigned char* p, const size_t n, uint64_t salt) {
	switch (g_fill) {
	case 0: memset(p, 0x00, n); break;
	case 1: memset(p, 0xFF, n); break;
	case 2: memset(p, 0x01, n); break;
	case 3: memset(p, 0xAA, n); break;
	case 4: memset(p, 0x55, n); break;
	case 5: { vh::Rng r(salt); for (size_t i = 0; i < n; ++i) p[i] = static_cast<unsigned char>(r.next()); break; }
	default:
		memset(p, 0xCD, n);
#ifdef VERIF_VALGRIND
		VALGRIND_MAKE_MEM_UNDEFINED(p, n);
#endif
		break;
	}
}
static void prefill(unsigned slot, uint64_t caseSeed) { prefillBytes(g_store[slot], STORE_SIZE, caseSeed * 77 + slot); }

static Instance* construct(unsigned slot, bool withLogger) {
	void* mem = g_store[slot];
	(void) withLogger;
#if HAS_LOG
	cfg::Lg* lg = withLogger ? &g_lg[slot] : nullptr;
	g_lg[slot].slot = slot;
#endif
#if CFG_CTX == 0
  #if HAS_LOG
	return new (mem) Instance(lg);
  #else
	return new (mem) Instance();
  #endif
#elif CFG_CTX == 1
	cfg::CtxData c; c.slot = slot;
	// a value context can be handed over as an lvalue or as an rvalue: two different constructors
	const bool rvalue = ((W->caseNo + slot) & 1) != 0;
  #if HAS_LOG
	if (rvalue) return new (mem) Instance(static_cast<cfg::CtxData&&>(c), lg);
	return new (mem) Instance(c, lg);
  #else
	if (rvalue) return new (mem) Instance(static_cast<cfg::CtxData&&>(c));
	return new (mem) Instance(c);
  #endif
#elif CFG_CTX == 4
	cfg::TinyCtx c;
	const bool rvalue = ((W->caseNo + slot) & 1) != 0;
  #if HAS_LOG
	if (rvalue) return new (mem) Instance(static_cast<cfg::TinyCtx&&>(c), lg);
	return new (mem) Instance(c, lg);
  #else
	if (rvalue) return new (mem) Instance(static_cast<cfg::TinyCtx&&>(c));
	return new (mem) Instance(c);
  #endif
#elif CFG_CTX == 2
  #if HAS_LOG
	return new (mem) Instance(g_ctx[slot], lg);
  #else
	return new (mem) Instance(g_ctx[slot]);
  #endif
#else
  #if HAS_LOG
	return new (mem) Instance(&g_ctx[slot], lg);
  #else
	return new (mem) Instance(&g_ctx[slot]);
  #endif
#endif
}

// ---------------------------------------------------------------------------
// quiescent observation

struct Obs {
	int active = -1;
	unsigned mask = 0;
	bool isActiveFlag = false;
	PlanVec plan;
	bool planConsistent = true;
	Req prev;
	Req request;
	bool requestKnown = false;
	std::string str() const { return fmt("active=%d mask=%x plan=%s prev=%s request=%s", active, mask, planStr(plan).c_str(), prev.str().c_str(), requestKnown ? request.str().c_str() : "?"); }
	bool same(const Obs& o) const {
		return active == o.active && mask == o.mask && isActiveFlag == o.isActiveFlag && samePlan(plan, o.plan) && prev.same(o.prev) && (!requestKnown || !o.requestKnown || request.same(o.request));
	}
	const char* firstDifference(const Obs& o) const {
		if (active != o.active || mask != o.mask || isActiveFlag != o.isActiveFlag) return "activity";
		if (!samePlan(plan, o.plan)) return "plan";
		if (!prev.same(o.prev)) return "previousTransition";
		if (requestKnown && o.requestKnown && !request.same(o.request)) return "outstanding-request";
		return "none";
	}
};

// C17: data held in the state objects themselves (each state and injection keeps a running digest of the callbacks
// it received) - read through access<TState>()
template <unsigned I> static uint64_t memOf(const cfg::Br<I>&) { return 0; }
template <unsigned I, size_t... J>
static uint64_t memOfSt(const cfg::St<I>& st, std::index_sequence<J...>) {
	uint64_t h = st.mem;
	(void) std::initializer_list<int>{(h = vh::mix(h, static_cast<const cfg::Inj<I, J + 1>&>(st).mem), 0)...};
	return h;
}
template <unsigned I> static uint64_t memOf(const cfg::St<I>& st) { return memOfSt(st, std::make_index_sequence<cfg::K>{}); }

static std::vector<uint64_t> stateData(const Inst& in) {
	std::vector<uint64_t> v(N, 0);
	const Instance& m = *in.obj;
	for (unsigned i = 0; i < N; ++i) FOR_STATE(i, T, v[i] = memOf(m.template access<T>()));
	return v;
}

static Obs observe(Inst& in) {
	World& w = *W;
	Obs o;
	const Instance& m = *in.obj;
	const ffsm2::StateID a = m.activeStateId();
	o.active = a == ffsm2::INVALID_STATE_ID ? -1 : a;
	for (unsigned i = 0; i < N; ++i) {
		const bool a1 = m.isActive(static_cast<StateID>(i));
		bool a2 = a1;
		FOR_STATE(i, T, a2 = m.template isActive<T>());
		if (a1 != a2) w.V("C01", "isActive<T>-disagrees-with-isActive(id)", fmt("isActive(%u)=%d, isActive<T>()=%d", i, int(a1), int(a2)));
		if (a1) o.mask |= 1u << i;
	}
#if CFG_MANUAL
	o.isActiveFlag = m.isActive();
#else
	o.isActiveFlag = o.active >= 0;
#endif
#if HAS_PLANS
	{
		bool c1 = true, c2 = true, c3 = true;
		o.plan = readPlan(m.plan(), &c1);                 // CPlan
		const PlanVec p2 = readPlan(in.obj->plan(), &c2); // Plan
		const auto constHandle = in.obj->plan();          // const Plan: iterates with its own iterator type
		const PlanVec p3 = readPlan(constHandle, &c3);
		o.planConsistent = c1 && c2 && c3 && samePlan(o.plan, p2) && samePlan(o.plan, p3);
	}
#endif
#if HAS_HISTORY
	o.prev = toReq(m.previousTransition());
#endif
	if (o.active >= 0) {
		w.probe = true; w.probeSeen = false;
		cfg::Ev1 e{0};
		m.query(e);
		w.probe = false;
		if (w.probeSeen) { o.request = w.probeRequest; o.requestKnown = true; }
	}
	return o;
}

// compare the machine's own report with the harness model at an API boundary
static void checkObs(Inst& in, const char* where) {
	World& w = *W;
	const Obs o = observe(in);
	w.stats.add("quiescent_observations");
	// C01
	const unsigned expectMask = in.cur >= 0 ? 1u << in.cur : 0u;
	if (o.active != in.cur || o.mask != expectMask || o.isActiveFlag != (in.cur >= 0))
		w.V("C01", fmt("machine-activity-vs-pairing|%s", in.cur < 0 ? "should-be-inactive" : (o.active < 0 ? "reports-inactive" : "names-other-state")),
			fmt("after %s the machine reports activeStateId=%d isActive-mask=%x isActive()=%d, but the state entered most recently without exit is %d; %s", where, o.active, o.mask, int(o.isActiveFlag), in.cur, w.tail().c_str()));
#if HAS_PLANS
	if (!o.planConsistent) w.V("C10", "plan-handles-inconsistent", fmt("after %s Plan / CPlan / first / last / bool disagree: %s", where, planStr(o.plan).c_str()));
	in.actualPlan = o.plan; in.actualPlanKnown = true;
	comparePlanWithShadow(in, where);
#endif
	// C02 / C04: the outstanding request (left over at the limit, or not yet processed)
	if (o.requestKnown && !o.request.same(in.latest)) {
		const std::string msg = fmt("after %s the outstanding request reads %s, expected %s; %s", where, o.request.str().c_str(), in.latest.str().c_str(), w.tail().c_str());
		w.V("C02", fmt("outstanding-request|%s", in.latest.valid ? (o.request.valid ? "differs" : "lost") : "unexpected"), msg);
		if (in.st.limitLeftOver) w.V("C04", "left-over-request-lost", msg);
		in.latest = o.request;
	}
#if HAS_HISTORY
	// C11: previousTransition() describes what was actually applied
	{
		const bool ok = o.prev.same(in.prevExpected) || (in.prevLenientEmptyOk && !o.prev.valid);
		if (!ok) {
			const std::string msg = fmt("after %s previousTransition() is %s, the transition applied was %s (active %d); %s", where, o.prev.str().c_str(), in.prevExpected.str().c_str(), o.active, w.tail().c_str());
			w.V("C11", fmt("previousTransition!=applied|%s", !in.prevExpected.valid ? "should-be-empty" : (!o.prev.valid ? "empty" : (o.prev.dest != in.prevExpected.dest ? "destination" : o.prev.origin != in.prevExpected.origin ? "origin" : "payload"))), msg);
			// the payload of one request is never shown for another, a payload-free request exposes none (tags are unique per request)
			if (o.prev.valid && in.prevExpected.valid && (o.prev.hasPay != in.prevExpected.hasPay || (o.prev.hasPay && o.prev.tag != in.prevExpected.tag))) w.V("C07", "payload-in-previousTransition", msg);
		}
		if (o.prev.valid && o.active >= 0 && o.prev.dest != o.active && !in.prevLenientEmptyOk)
			w.V("C11", "previousTransition-destination-not-active", fmt("after %s previousTransition().destination=%u but the active state is %d; %s", where, o.prev.dest, o.active, w.tail().c_str()));
		if (in.prevLenientEmptyOk && !o.prev.valid) { in.prevExpected = Req{}; }
		in.prevLenientEmptyOk = false;
	}
#endif
}

// ---------------------------------------------------------------------------
// operations

struct OpDesc {
	uint8_t op = OP_UPDATE;
	uint8_t a = 255, b = 255;
	bool withPayload = false;
	bool success = true;
	uint32_t value = 0;
};

static void opConstruct(unsigned slot, Policy pol, bool withLogger) {
	World& w = *W;
	if (cfg::BARE && HAS_LOG) withLogger = true;   // states without callbacks are visible only through the verbose log
	Inst& in = w.inst[slot];
	in = Inst{};
	in.slot = static_cast<uint8_t>(slot);
	in.policy = pol;
	prefill(slot, w.caseNo);
	in.obj = reinterpret_cast<Instance*>(g_store[slot]);
#if CFG_CTX == 2 || CFG_CTX == 3
	in.ctxExpected = &g_ctx[slot];
#endif
	in.loggerAttached = HAS_LOG && withLogger;
	w.apiBegin(in, OP_CTOR);
	LIB(construct(slot, withLogger));
	w.apiEnd(in);
	in.alive = true;
	if (cfg::MANUAL && (in.st.enters || in.st.rootEnters || in.st.guardDeliveries))
		w.V("C01", "manual-machine-activated-by-constructor", fmt("constructing a manually activated machine ran callbacks; %s", w.tail().c_str()));
	checkObs(in, "construction");
}

static void opDestroy(unsigned slot) {
	World& w = *W;
	Inst& in = w.inst[slot];
	if (!in.alive) return;
	const bool wasActive = in.cur >= 0;
	w.apiBegin(in, OP_DTOR);
	LIB(in.obj->~Instance());
	w.apiEnd(in);
	in.alive = false;
	if (cfg::MANUAL) {
		if (in.st.exits || in.st.rootExits) w.V("C01", "manual-machine-exited-by-destructor", "destructor of a manually activated machine ran exit callbacks");
		(void) wasActive;
	} else if (in.cur >= 0 || in.rootIn)
		w.V("C01", "enter-left-unpaired-at-destruction", fmt("destruction left enter(%d) (root entered: %d) without exit; %s", in.cur, int(in.rootIn), w.tail().c_str()));
}

#if CFG_MANUAL
static void opEnter(Inst& in) {
	World& w = *W;
	w.apiBegin(in, OP_ENTER);
	LIB(in.obj->enter());
	w.apiEnd(in);
	checkObs(in, "enter()");
}
static void opExit(Inst& in) {
	World& w = *W;
	w.apiBegin(in, OP_EXIT);
	LIB(in.obj->exit());
	w.apiEnd(in);
	if (in.cur >= 0 || in.rootIn) w.V("C01", "enter-left-unpaired-at-exit", fmt("exit() left enter(%d) (root entered %d) unpaired; %s", in.cur, int(in.rootIn), w.tail().c_str()));
	checkObs(in, "exit()");
}
#endif

static void opUpdate(Inst& in) {
	World& w = *W;
	w.apiBegin(in, OP_UPDATE);
	LIB(in.obj->update());
	w.apiEnd(in);
	checkObs(in, "update()");
}

static void opReact(Inst& in, uint32_t value) {
	World& w = *W;
	const cfg::Ev1 e{value};
	const cfg::Ev2 e2{value, ~uint64_t(value)};
	const bool second = (value & 1) != 0;       // two event types
	w.curEvent = second ? static_cast<const void*>(&e2) : static_cast<const void*>(&e);
	w.apiBegin(in, OP_REACT);
	if (second) LIB(in.obj->react(e2)); else LIB(in.obj->react(e));
	w.apiEnd(in);
	w.curEvent = nullptr;
	checkObs(in, "react()");
}

#if HAS_SERIAL
static std::vector<uint8_t> saveBytes(Inst& in);
#endif

static void opQuery(Inst& in) {
	World& w = *W;
	const Obs before = observe(in);
#if HAS_SERIAL
	const std::vector<uint8_t> bytesBefore = saveBytes(in);
#endif
	cfg::Ev1 e{42};
	cfg::Ev2 e2{1, 2};
	const bool second = w.ch.draw(2) == 1;
	w.curEvent = second ? static_cast<const void*>(&e2) : static_cast<const void*>(&e);
	w.apiBegin(in, OP_QUERY);
	if (second) LIB(static_cast<const Instance*>(in.obj)->query(e2)); else LIB(static_cast<const Instance*>(in.obj)->query(e));
	w.apiEnd(in);
	w.curEvent = nullptr;
	w.flags |= F_QUERY;
	const Obs after = observe(in);
	if (!before.same(after))
		w.V("C05", fmt("query-changed-the-machine|%s", before.firstDifference(after)), fmt("query(): before {%s} after {%s}; %s", before.str().c_str(), after.str().c_str(), w.tail().c_str()));
#if HAS_SERIAL
	if (bytesBefore != saveBytes(in)) w.V("C05", "query-changed-the-machine|serialized-form", "query() changed the serialized form");
#endif
	checkObs(in, "query()");
}

static void opChange(Inst& in, uint8_t dest, bool withPayload, bool immediate) {
	World& w = *W;
	// now and then the payload argument is a reference into the machine itself: the payload of its own previous
	// transition is forwarded (fsm.changeWith(next, *fsm.previousTransition().payload()))
#if HAS_PAYLOAD
	const cfg::Payload* alias = nullptr;
#if HAS_HISTORY
	if (withPayload && in.policy == POL_CHOOSER && w.ch.mode != Chooser::ENUM && in.obj->previousTransition().payload() && w.ch.chance(1, 4)) {
		alias = in.obj->previousTransition().payload();
		w.stats.add("payload_arguments_aliasing_own_history");
	}
#endif
	const uint64_t tag = withPayload ? (alias ? cfg::tagOf(*alias) : ++w.tagCounter) : 0;
#else
	const uint64_t tag = 0;
#endif
	const uint8_t op = immediate ? (withPayload ? OP_IMMEDIATE_WITH : OP_IMMEDIATE) : (withPayload ? OP_CHANGE_WITH : OP_CHANGE);
	Obs before;
	if (!immediate) before = observe(in);
	const bool byType = in.policy == POL_CHOOSER && typeForm();
	w.apiBegin(in, op, dest, 255, tag);
	w.act(in, withPayload ? ACT_CHANGE_WITH : ACT_CHANGE, dest, 255, tag);
	w.noteRequest(in, 255, dest, withPayload, tag);
	const bool loggerAtRequestTime = in.loggerAttached;   // (the logger may be attached / detached by a callback of the processing)
	if (immediate) { w.immOwn = in.loggerAttached; w.immCount = 0; }
	else { w.ownRequest = true; w.ownLogCount = 0; }
#if HAS_PAYLOAD
	if (withPayload) {
		const cfg::Payload plOwn = cfg::makePayload(tag);
		const cfg::Payload& pl = alias ? *alias : plOwn;
		if (byType) { if (immediate) FOR_STATE(dest, T, LIB(in.obj->template immediateChangeWith<T>(pl))); else FOR_STATE(dest, T, LIB(in.obj->template changeWith<T>(pl))); }
		else { if (immediate) LIB(in.obj->immediateChangeWith(static_cast<StateID>(dest), pl)); else LIB(in.obj->changeWith(static_cast<StateID>(dest), pl)); }
	} else
#endif
	{
		if (byType) { if (immediate) FOR_STATE(dest, T, LIB(in.obj->template immediateChangeTo<T>())); else FOR_STATE(dest, T, LIB(in.obj->template changeTo<T>())); }
		else { if (immediate) LIB(in.obj->immediateChangeTo(static_cast<StateID>(dest))); else LIB(in.obj->changeTo(static_cast<StateID>(dest))); }
	}
	if (immediate) {
		if (HAS_LOG && loggerAtRequestTime && (w.immCount != 1 || w.immOwn))
			w.V("C16", "action-record-mismatch|immediateChangeTo", fmt("immediateChange(%u) produced %u transition records for the request itself; %s", dest, w.immCount, w.tail().c_str()));
		w.immOwn = false;
	} else {
		w.ownRequest = false;
		w.expectOwnLog(in, LOG_TRANSITION, 255, dest, "changeTo(external)");
	}
	w.apiEnd(in);
	if (!immediate) {
		// C02: a request never changes the machine at the moment it is made
		if (in.st.guardDeliveries || in.st.exits || in.st.enters || in.st.reenters)
			w.V("C02", "request-took-effect-when-made|external", fmt("changeTo(%u) delivered guard/enter/exit callbacks; %s", dest, w.tail().c_str()));
		Obs after = observe(in);
		Obs b2 = before; b2.request = after.request; b2.requestKnown = after.requestKnown;
		if (!b2.same(after))
			w.V("C02", fmt("request-took-effect-when-made|external|%s", before.firstDifference(after)), fmt("changeTo(%u): before {%s} after {%s}; %s", dest, before.str().c_str(), after.str().c_str(), w.tail().c_str()));
	}
	checkObs(in, immediate ? "immediateChange*()" : "changeTo()/changeWith()");
}

#if HAS_PLANS
static void opReport(Inst& in, bool success, uint8_t target) {
	World& w = *W;
	w.apiBegin(in, success ? OP_SUCCEED : OP_FAIL, target);
	w.act(in, success ? ACT_SUCCEED : ACT_FAIL, target, 255);
	w.ownReport = true; w.ownLogCount = 0;
	if (typeForm()) { if (success) FOR_STATE(target, T, LIB(in.obj->template succeed<T>())); else FOR_STATE(target, T, LIB(in.obj->template fail<T>())); }
	else { if (success) LIB(in.obj->succeed(static_cast<StateID>(target))); else LIB(in.obj->fail(static_cast<StateID>(target))); }
	w.ownReport = false;
	w.noteReport(in, success, target, 255, false);
	w.expectOwnLog(in, LOG_TASK_STATUS, target, success ? 1 : 0, success ? "succeed(external)" : "fail(external)");
	w.apiEnd(in);
	checkObs(in, "succeed()/fail()");
}

static void opPlanEdit(Inst& in, unsigned kind, uint8_t origin, uint8_t dest, bool withPayload, unsigned idx) {
	World& w = *W;
	const uint8_t op = kind == 0 ? OP_PLAN_APPEND : kind == 1 ? OP_PLAN_REMOVE : OP_PLAN_CLEAR;
	w.apiBegin(in, op, origin, dest);
	// (a read-only view of the plan taken before the edit is looked at again after it)
	auto viewBefore = static_cast<const Instance*>(in.obj)->plan();
	if (kind == 0) planAppend(in.obj->plan(), in, origin, dest, withPayload, "external plan edit");
	else if (kind == 1) planRemoveAt(in.obj->plan(), in, idx, "external plan edit");
	else planClear(in.obj->plan(), in, "external plan edit");
	{
		bool cons = true;
		const PlanVec v = readPlan(viewBefore, &cons);
		if (!samePlan(v, in.plan) || !cons)
			w.V("C10", "read-only-view-obtained-before-an-edit-is-stale", fmt("external plan edit: a CPlan obtained before the edit iterates as %s (first/last/bool consistent: %d), the plan is %s; %s", planStr(v).c_str(), int(cons), planStr(in.plan).c_str(), w.tail().c_str()));
		w.stats.add("plan_views_rechecked_after_edit");
	}
	w.apiEnd(in);
	checkObs(in, "plan edit");
}

// C10: after any history the full capacity is available again once the plan is empty
static void opLeakProbe(Inst& in) {
	World& w = *W;
	w.apiBegin(in, OP_PLAN_CLEAR);
	planClear(in.obj->plan(), in, "leak probe");
	unsigned accepted = 0;
	for (unsigned i = 0; i < cfg::CAP + 2; ++i) {
		const size_t before = in.plan.size();
		planAppend(in.obj->plan(), in, static_cast<uint8_t>(w.ch.draw(N)), static_cast<uint8_t>(w.ch.draw(N)), HAS_PAYLOAD && (i & 1), "leak probe");
		if (in.plan.size() > before) ++accepted;
	}
	if (accepted != cfg::CAP)
		w.V("C10", fmt("capacity-after-history|%s", accepted < cfg::CAP ? "leaked" : "exceeded"), fmt("after clearing, %u appends were accepted, capacity is %u; %s", accepted, cfg::CAP, w.tail().c_str()));
	planClear(in.obj->plan(), in, "leak probe");
	w.apiEnd(in);
	w.stats.add("plan_leak_probes");
	checkObs(in, "leak probe");
}
#endif

// pointer contexts can be re-pointed at run time
static void opSetContext(Inst& in) {
#if CFG_CTX == 3
	World& w = *W;
	cfg::CtxData* const target = in.ctxExpected == &g_ctx[in.slot] ? &g_ctxAlt[in.slot] : &g_ctx[in.slot];
	w.apiBegin(in, OP_OBSERVE);
	LIB(in.obj->setContext(target));
	in.ctxExpected = target;
	w.apiEnd(in);
	if (static_cast<const void*>(in.obj->context()) != target) w.V("C06", "setContext-not-reflected-by-context()", "Instance::context() does not return the pointer given to setContext()");
	w.stats.add("setContext_calls");
#else
	(void) in;
#endif
}

static void opAttach(Inst& in, bool attach) {
#if HAS_LOG
	World& w = *W;
	w.apiBegin(in, attach ? OP_ATTACH : OP_DETACH);
	g_lg[in.slot].slot = in.slot;
	LIB(in.obj->attachLogger(attach ? &g_lg[in.slot] : nullptr));
	in.loggerAttached = attach;
	w.apiEnd(in);
#else
	(void) in; (void) attach;
#endif
}

// ---------------------------------------------------------------------------
// C12: save / load

#if HAS_SERIAL
using SerialBuffer = Instance::SerialBuffer;
struct GuardedBuffer {
	uint8_t pre[32];
	SerialBuffer buf;
	uint8_t post[32];
	GuardedBuffer() { memset(pre, 0xA5, sizeof pre); memset(post, 0x5A, sizeof post); memset(static_cast<void*>(&buf), 0xFF, sizeof buf); }
	bool intact() const { for (auto c : pre) if (c != 0xA5) return false; for (auto c : post) if (c != 0x5A) return false; return true; }
	std::vector<uint8_t> bytes() const { const uint8_t* p = reinterpret_cast<const uint8_t*>(&buf); return std::vector<uint8_t>(p, p + sizeof buf); }
};

static std::vector<uint8_t> saveBytes(Inst& in) {
	GuardedBuffer g;
	World& w = *W;
	const bool savedApi = w.inApi;
	Inst* savedCur = w.cur;
	w.probe = true;     // a save must not run callbacks; if it does they are reported by opSave, not here
	static_cast<const Instance*>(in.obj)->save(g.buf);
	w.probe = false;
	w.inApi = savedApi; w.cur = savedCur;
	return g.bytes();
}

// canonical form: activity -> bytes seen in this process
static std::vector<uint8_t> g_canon[cfg::N + 1];
static bool g_canonKnown[cfg::N + 1];

static bool events_since_begin_have_subs(Inst& in) {
	const World& w = *W;
	for (size_t i = in.st.evBegin; i < w.events.size(); ++i) if (w.events[i].kind == EV_SUB) return true;
	return false;
}

static GuardedBuffer opSave(Inst& in) {
	World& w = *W;
	GuardedBuffer g;
	const Obs before = observe(in);
	w.apiBegin(in, OP_SAVE);
	LIB(static_cast<const Instance*>(in.obj)->save(g.buf));
	w.apiEnd(in);
	const Obs after = observe(in);
	if (in.st.enters || in.st.exits || in.st.reenters || in.st.guardDeliveries || events_since_begin_have_subs(in))
		w.V("C12", "save-ran-callbacks", fmt("save() delivered callbacks; %s", w.tail().c_str()));
	if (!before.same(after)) w.V("C12", fmt("save-modified-the-machine|%s", before.firstDifference(after)), fmt("save(): before {%s} after {%s}", before.str().c_str(), after.str().c_str()));
	if (!g.intact()) w.V("C12", "save-wrote-outside-buffer", "save() damaged the canary bytes around the SerialBuffer object");
	const std::vector<uint8_t> b = g.bytes();
	constexpr unsigned BITS = SerialBuffer::BIT_CAPACITY;
	for (unsigned bit = BITS; bit < b.size() * 8; ++bit)
		if (b[bit / 8] >> (bit % 8) & 1) { w.V("C12", "save-wrote-beyond-bit-capacity", fmt("bit %u of the buffer is set, declared capacity is %u bits", bit, BITS)); break; }
	// "the buffer capacity suffices for every state count": 1 activity bit + index bits
	if ((1u << (BITS - 1)) < N) w.V("C12", "buffer-capacity-too-small", fmt("%u bits cannot hold activity + %u state indices", BITS, N));
	const unsigned key = before.active < 0 ? 0 : 1 + static_cast<unsigned>(before.active);
	if (g_canonKnown[key]) {
		if (g_canon[key] != b) w.V("C12", "buffers-differ-for-equal-activity", fmt("two saves with activity %d produced different bytes", before.active));
	} else {
		for (unsigned k = 0; k <= N; ++k)
			if (g_canonKnown[k] && g_canon[k] == b) w.V("C12", "buffers-equal-for-different-activity", fmt("activity %d and %d serialise to the same bytes", before.active, int(k) - 1));
		g_canon[key] = b; g_canonKnown[key] = true;
	}
	w.stats.add("saves");
	return g;
}
#endif

// ---------------------------------------------------------------------------
// the case driver

struct Case {
	World& w;
	bool replicaOn = false, loaderOn = false;
	bool attachedAtCtor = true;
	unsigned logMode = 0; // 0 attached throughout, 1 never, 2 toggled by the aux stream

	explicit Case(World& w_) : w(w_) {}

	Inst& A() { return w.inst[0]; }
	Inst& R() { return w.inst[1]; }
	Inst& Ld() { return w.inst[2]; }
	Inst& Cp() { return w.inst[3]; }

	OpDesc pickOp() {
		const Profile& p = w.prof;
		Inst& a = A();
		OpDesc d;
		if (a.cur < 0) {
			// inactive manual machine: only activation (and passive calls) are in contract
			d.op = OP_ENTER;
			const uint32_t k = w.ch.pick({10, HAS_SERIAL ? 2u : 0u, 2, HAS_PLANS ? 2u : 0u});
			if (k == 1) d.op = OP_SAVE; else if (k == 2) d.op = OP_COPY;
			else if (k == 3) { d.success = w.ch.chance(1, 2); d.op = d.success ? OP_SUCCEED : OP_FAIL; d.a = static_cast<uint8_t>(w.ch.draw(N)); }   // task reports need no active machine
			return d;
		}
		const uint32_t k = w.ch.pick({p.wUpdate, p.wReact, p.wQuery, p.wExtChange, p.wImmediate, HAS_PLANS ? p.wExtReport : 0u, HAS_PLANS ? p.wExtPlan : 0u,
									  HAS_SERIAL ? p.wSaveLoad : 0u, p.wCopy, cfg::MANUAL ? p.wEnterExit : 0u, p.wObserve});
		switch (k) {
		case 0: d.op = OP_UPDATE; break;
		case 1: d.op = OP_REACT; d.value = w.ch.draw(1000); break;
		case 2: d.op = OP_QUERY; break;
		case 3: d.withPayload = HAS_PAYLOAD && w.ch.chance(1, 2); d.op = d.withPayload ? OP_CHANGE_WITH : OP_CHANGE; d.a = static_cast<uint8_t>(w.ch.draw(N)); break;
		case 4: d.withPayload = HAS_PAYLOAD && w.ch.chance(1, 2); d.op = d.withPayload ? OP_IMMEDIATE_WITH : OP_IMMEDIATE; d.a = static_cast<uint8_t>(w.ch.draw(N)); break;
		case 5: d.success = w.ch.chance(3, 4); d.op = d.success ? OP_SUCCEED : OP_FAIL; d.a = static_cast<uint8_t>(w.ch.chance(2, 3) && a.cur >= 0 ? a.cur : w.ch.draw(N)); break;
		case 6: {
			const uint32_t e = w.ch.pick({8, a.plan.empty() ? 0u : 3u, 1, 1});
			if (e == 0) {
				d.op = OP_PLAN_APPEND; d.withPayload = HAS_PAYLOAD && w.ch.chance(1, 2);
				d.a = static_cast<uint8_t>(w.ch.chance(1, 2) && a.cur >= 0 ? a.cur : w.ch.draw(N));
				d.b = w.ch.chance(1, 6) ? d.a : static_cast<uint8_t>(w.ch.draw(N));
			} else if (e == 1) { d.op = OP_PLAN_REMOVE; d.value = w.ch.draw(static_cast<uint32_t>(a.plan.size())); }
			else if (e == 2) d.op = OP_PLAN_CLEAR;
			else { d.op = OP_PLAN_CLEAR; d.value = 1; } // leak probe
			break;
		}
		case 7: d.op = OP_SAVE; break;
		case 8: d.op = OP_COPY; break;
		case 9: d.op = OP_EXIT; break;
		default: d.op = OP_OBSERVE; d.value = w.ch.draw(2); break;
		}
		return d;
	}

	// perform a "plain" operation on an instance (used for the authority and, in lock-step, for copies)
	void perform(Inst& in, const OpDesc& d) {
		switch (d.op) {
		case OP_UPDATE: opUpdate(in); break;
		case OP_REACT: opReact(in, d.value); break;
		case OP_QUERY: opQuery(in); break;
		case OP_CHANGE: case OP_CHANGE_WITH: opChange(in, d.a, d.withPayload, false); break;
		case OP_IMMEDIATE: case OP_IMMEDIATE_WITH: opChange(in, d.a, d.withPayload, true); break;
#if HAS_PLANS
		case OP_SUCCEED: case OP_FAIL: opReport(in, d.success, d.a); break;
		case OP_PLAN_APPEND: opPlanEdit(in, 0, d.a, d.b, d.withPayload, 0); break;
		case OP_PLAN_REMOVE: opPlanEdit(in, 1, 0, 0, false, d.value); break;
		case OP_PLAN_CLEAR: if (d.value) opLeakProbe(in); else opPlanEdit(in, 2, 0, 0, false, 0); break;
#endif
		case OP_OBSERVE: if (CFG_CTX == 3 && d.value) opSetContext(in); checkObs(in, "observe"); break;
		default: break;
		}
	}

	static bool plainOp(uint8_t op) { return op != OP_SAVE && op != OP_COPY && op != OP_ENTER && op != OP_EXIT; }

	// ---- replica (C11)
	void replicaStart() {
#if HAS_HISTORY
		opConstruct(1, POL_PASSIVE, false);
		replicaOn = true;
		replicaFollowActivation();
#endif
	}

	void replicaFollowActivation() {
#if HAS_HISTORY
		if (!replicaOn) return;
		Inst& a = A(); Inst& r = R();
		if (a.cur < 0) return;
		const Req prev = toReq(a.obj->previousTransition());
		const uint8_t d0 = prev.valid ? prev.dest : 0;
		r.policy = POL_HOSTILE;
#if CFG_MANUAL
		if (r.cur < 0) {
			w.apiBegin(r, OP_REPLAY_ENTER, d0);
			LIB(r.obj->replayEnter(static_cast<StateID>(d0)));
			w.apiEnd(r);
			checkObs(r, "replayEnter()");
		}
#else
		if (r.cur != static_cast<int>(d0)) replay(d0);
#endif
		compareReplica("activation");
#endif
	}

	void replay(uint8_t d) {
#if HAS_HISTORY
		Inst& r = R();
		const Obs before = observe(r);
		w.apiBegin(r, OP_REPLAY, d);
		bool ok = false;
		LIB(ok = r.obj->replayTransition(static_cast<StateID>(d)));
		w.apiEnd(r);
		if (ok != (d != 255)) w.V("C11", "replayTransition-return-value", fmt("replayTransition(%u) returned %d", d, int(ok)));
		if (d == 255) {
			Obs after = observe(r);
			Obs b2 = before; b2.prev = after.prev;   // its own history may be cleared or kept
			if (!b2.same(after) || (after.prev.valid && !after.prev.same(before.prev)))
				w.V("C11", fmt("replayTransition-invalid-id-changed-the-machine|%s", b2.firstDifference(after)), fmt("replayTransition(INVALID): before {%s} after {%s}", before.str().c_str(), after.str().c_str()));
		}
		checkObs(r, "replayTransition()");
		w.stats.add("replay_steps");
#else
		(void) d;
#endif
	}

	void compareReplica(const char* where) {
#if HAS_HISTORY
		Inst& a = A(); Inst& r = R();
		const int aa = a.obj->activeStateId() == ffsm2::INVALID_STATE_ID ? -1 : a.obj->activeStateId();
		const int ra = r.obj->activeStateId() == ffsm2::INVALID_STATE_ID ? -1 : r.obj->activeStateId();
		if (aa != ra)
			w.V("C11", "replica-out-of-sync", fmt("after %s the authority is in %d but the replica fed with previousTransition() destinations is in %d; %s", where, aa, ra, w.tail().c_str()));
		w.stats.add("replica_comparisons");
#else
		(void) where;
#endif
	}

	void replicaFollowStep(const OpDesc& d) {
#if HAS_HISTORY
		if (!replicaOn) return;
		Inst& a = A();
		if (!isProcessingOp(d.op)) return;
		if (a.cur < 0) return;
		const Req prev = toReq(a.obj->previousTransition());
		if (prev.valid) replay(prev.dest);
		else if (w.ch.chance(1, 20)) replay(255);
		compareReplica(opName(d.op));
#else
		(void) d;
#endif
	}

	// ---- loader (C12)
	void saveLoad() {
#if HAS_SERIAL
		Inst& a = A();
		GuardedBuffer g = opSave(a);
		int activity = a.cur;
		const SerialBuffer* src = &g.buf;
#if CFG_MANUAL
		// one in six: the buffer loaded from is a fresh, default-initialised SerialBuffer that nothing was saved into, built over
		// pre-filled memory like the machines - it is the serialized form of an inactive machine whatever that memory held (C17)
		alignas(16) static unsigned char freshStore[sizeof(SerialBuffer) + 16];
		const bool fresh = w.ch.chance(1, 6);
		if (fresh) {
			prefillBytes(freshStore, sizeof freshStore, w.caseNo * 131 + 7);
			src = new (freshStore) SerialBuffer;
			activity = -1;
			w.stats.add("loads_from_fresh_buffers");
		}
#else
		const bool fresh = false;
#endif
		if (!Ld().alive) opConstruct(2, POL_PASSIVE, false);
		Inst& l = Ld();
		l.policy = POL_PASSIVE;
		// put the loader into a state of its own
#if CFG_MANUAL
		const uint32_t want = w.ch.draw(N + 1);   // N = inactive
		if (want == N) { if (l.cur >= 0) opExit(l); }
		else { if (l.cur < 0) opEnter(l); if (l.cur != static_cast<int>(want)) opChange(l, static_cast<uint8_t>(want), false, true); }
#else
		const uint32_t want = w.ch.draw(N);
		if (l.cur != static_cast<int>(want)) opChange(l, static_cast<uint8_t>(want), false, true);
#endif
		if (l.cur >= 0 && w.ch.chance(1, 3)) opChange(l, static_cast<uint8_t>(w.ch.draw(N)), HAS_PAYLOAD && w.ch.chance(1, 2), false); // outstanding request
#if HAS_PLANS
		if (l.cur >= 0 && w.ch.chance(1, 3)) opPlanEdit(l, 0, static_cast<uint8_t>(w.ch.draw(N)), static_cast<uint8_t>(w.ch.draw(N)), false, 0);
#endif
		l.policy = POL_HOSTILE;
		w.apiBegin(l, OP_LOAD, activity < 0 ? 255 : static_cast<uint8_t>(activity));
		LIB(l.obj->load(*src));
		w.apiEnd(l);
		checkObs(l, "load()");
		const int got = l.obj->activeStateId() == ffsm2::INVALID_STATE_ID ? -1 : l.obj->activeStateId();
		if (got != activity) w.V("C12", "loader-activity-differs-from-saver", fmt("saver activity %d, loader after load() %d; %s", activity, got, w.tail().c_str()));
		if (fresh && got != -1) w.V("C17", "fresh-buffer-not-the-inactive-form", fmt("load() from a default-initialised SerialBuffer (memory pre-filled with pattern %u) left the loader in state %d; %s", g_fill, got, w.tail().c_str()));
		// canonical: the loader now serialises to the same bytes
		GuardedBuffer g2 = opSave(l);
		if (!fresh && g2.bytes() != g.bytes()) w.V("C12", "buffers-differ-for-equal-activity", fmt("loader re-saved differs from the buffer it loaded (activity %d)", activity));
		l.policy = POL_PASSIVE;
		w.stats.add("save_load_roundtrips");
#if !CFG_MANUAL
		// C01: an automatically activated machine has exactly one active state for as long as it lives and leaves nothing
		// unpaired - also after it was handed a buffer that holds no activity (a blank one; only C01 is judged here)
		if (w.ch.chance(1, 8)) {
			const SerialBuffer blank{};
			w.apiBegin(l, OP_OBSERVE);
			LIB(l.obj->load(blank));
			w.apiEnd(l);
			const ffsm2::StateID now = l.obj->activeStateId();
			if (now == ffsm2::INVALID_STATE_ID || l.cur < 0)
				w.V("C01", "automatic-machine-without-active-state|after=load-of-blank-buffer", fmt("an automatically activated machine reports active state %u (entered-and-not-exited state: %d) after load() of a blank buffer; %s", now, l.cur, w.tail().c_str()));
			checkObs(l, "load() of a blank buffer");
			w.stats.add("blank_buffer_loads_into_automatic_machines");
		}
#endif
#endif
	}

	// ---- copies (C17)
	struct ChooserMark { vh::Rng rng; size_t pos, drawn; uint64_t tag; };
	ChooserMark mark() { return ChooserMark{w.ch.rng, w.ch.pos, w.ch.drawn.size(), w.tagCounter}; }
	void rewind(const ChooserMark& m) { w.ch.rng = m.rng; w.ch.pos = m.pos; w.ch.drawn.resize(m.drawn); w.tagCounter = m.tag; }

	static uint64_t projHash(const std::vector<Ev>& ev, size_t from, size_t to) {
		uint64_t h = 99;
		for (size_t i = from; i < to && i < ev.size(); ++i) {
			const Ev& e = ev[i];
			if (e.kind == EV_LOG) continue;
			h = vh::mix(h, (uint64_t(e.kind) << 40) | (uint64_t(e.code) << 32) | (uint64_t(e.sid) << 24) | (uint64_t(e.inj) << 16) | (uint64_t(e.a) << 8) | e.b);
			h = vh::mix(h, e.tag & cfg::TAGMASK);
		}
		return h;
	}
	std::string projStr(size_t from, size_t to) {
		std::string s;
		for (size_t i = from; i < to && i < w.events.size(); ++i) if (w.events[i].kind != EV_LOG) { s += evStr(w.events[i]); s += ' '; }
		return s;
	}

	void copyCheck() {
		Inst& a = A();
		Inst& c = Cp();
		const Obs oa0 = observe(a);
		// the copy inherits everything the harness knows about the original
		c = a;
		c.slot = 3;
		prefill(3, w.caseNo + 1000);
		c.obj = reinterpret_cast<Instance*>(g_store[3]);
		const size_t e0 = w.events.size();
		w.apiBegin(c, OP_COPY);
		LIB(new (g_store[3]) Instance(*a.obj));
		w.apiEnd(c);
		c.alive = true;
		for (size_t i = e0; i < w.events.size(); ++i)
			if (w.events[i].kind == EV_SUB) { w.V("C17", "copy-construction-ran-callbacks", fmt("copy construction delivered %s", evStr(w.events[i]).c_str())); break; }
#if HAS_LOG
		if (a.loggerAttached) opAttach(c, true);   // same logger kind, own record stream
#endif
		const Obs oa = observe(a), oc = observe(c);
		if (!oa0.same(oa)) w.V("C17", fmt("copying-changed-the-original|%s", oa0.firstDifference(oa)), fmt("original before {%s} after {%s}", oa0.str().c_str(), oa.str().c_str()));
		if (!oa.same(oc))
			w.V("C17", fmt("copy-not-observationally-equal|%s", oa.firstDifference(oc)), fmt("original {%s} copy {%s}; %s", oa.str().c_str(), oc.str().c_str(), w.tail().c_str()));
#if HAS_SERIAL
		if (saveBytes(a) != saveBytes(c)) w.V("C17", "copy-not-observationally-equal|serialized-form", "original and copy serialise differently");
#endif
		{
			const std::vector<uint64_t> da = stateData(a), dc = stateData(c);
			for (unsigned i = 0; i < N; ++i)
				if (da[i] != dc[i]) { w.V("C17", "copy-not-observationally-equal|state-object-data", fmt("data member of state %u (read through access<T>()) is %llx in the original and %llx in the copy; %s", i, (unsigned long long) da[i], (unsigned long long) dc[i], w.tail().c_str())); break; }
			w.stats.add("copy_state_data_comparisons");
		}
		c.prevExpected = oc.prev;   // a lost history is reported above (C17), not again as C11
		checkObs(c, "copy construction");
		w.flags |= F_COPY;
		w.stats.add("copies");
		// same inputs, same decisions: first on the copy, then on the original
		const unsigned steps = a.cur < 0 ? 0 : 1 + w.ch.draw(4);
		for (unsigned i = 0; i < steps && !w.stopCase; ++i) {
			OpDesc d;
			do { d = pickOp(); } while (!plainOp(d.op));
			const ChooserMark mk = mark();
			const Obs origBefore = observe(a);
			const size_t c0 = w.events.size();
			w.projHash = 7;
			perform(c, d);
			const uint64_t ranOnCopy = w.projHash;
			const size_t c1 = w.events.size();
			const Obs origAfter = observe(a);
			if (!origBefore.same(origAfter))
				w.V("C17", fmt("original-disturbed-by-operation-on-copy|%s", origBefore.firstDifference(origAfter)), fmt("%s on the copy changed the original: {%s} -> {%s}", opName(d.op), origBefore.str().c_str(), origAfter.str().c_str()));
			rewind(mk);
			w.projHash = 7;
			perform(a, d);
			const uint64_t ranOnOriginal = w.projHash;
			const size_t c2 = w.events.size();
			if (ranOnCopy != ranOnOriginal)
				w.V("C17", fmt("copy-diverged-from-original|op=%s", opName(d.op)), fmt("same operation and decisions: copy ran [%s] original ran [%s]", projStr(c0, c1).c_str(), projStr(c1, c2).c_str()));
			const Obs fa = observe(a), fc = observe(c);
			if (!fa.same(fc)) w.V("C17", fmt("copy-diverged-from-original|state|%s", fa.firstDifference(fc)), fmt("after %s: original {%s} copy {%s}", opName(d.op), fa.str().c_str(), fc.str().c_str()));
			if (stateData(a) != stateData(c)) w.V("C17", "copy-diverged-from-original|state-object-data", fmt("after %s on both, the state objects of original and copy hold different data", opName(d.op)));
			w.stats.add("copy_lockstep_operations");
			replicaFollowStep(d);
		}
#if CFG_MANUAL
		if (c.cur >= 0 && w.ch.chance(1, 2)) opExit(c);
#endif
		opDestroy(3);
	}

	// a copy of the authority taken from inside one of its callbacks (fsm_states.hpp: hub): whatever the machine was in
	// the middle of, the copy is a machine, and its cycles deliver their phases (C05; nothing else is known about it)
	void snapshotCheck() {
		// cycles: the phases (C05); plan outcomes only when warranted (C09) - the task reports that may be outstanding in
		// the copy are those that might have been outstanding in the original when the copy was taken
		static const char* const ONLY_C05[] = {"C05", "C09", nullptr};
		static const char* const ONLY_LOAD[] = {"C12", "C14", nullptr};
		Inst& sn = w.inst[4];
		const void* ctxExp = A().ctxExpected;
		sn = Inst{};
		sn.slot = 4;
		sn.obj = reinterpret_cast<Instance*>(g_store[4]);
		sn.alive = true;
		sn.policy = POL_PASSIVE;
		sn.ctxExpected = ctxExp;
		const ffsm2::StateID act = sn.obj->activeStateId();
		sn.cur = act == ffsm2::INVALID_STATE_ID ? -1 : static_cast<int>(act);
		sn.rootIn = sn.cur >= 0;
		for (unsigned i = 0; i < 32; ++i) { sn.succMay[i] = w.snapSuccMay[i]; sn.failMay[i] = w.snapFailMay[i]; }
		sn.tasksAdded = w.snapTasksAdded;
#if HAS_PLANS
		sn.plan = readPlan(static_cast<const Instance*>(sn.obj)->plan());
#endif
		w.snapPending = false;
#if HAS_SERIAL
		if (sn.cur >= 0) {
			// whatever the original was in the middle of, the copy serialises to the bytes of the activity it reports (C12)
			static const char* const ONLY_C12[] = {"C12", nullptr};
			w.muteAllow = ONLY_C12;
			(void) opSave(sn);
			w.muteAllow = nullptr;
			w.stats.add("snapshot_saves");
		}
#endif
		if (sn.cur >= 0) {
			w.muteAllow = ONLY_C05;
#if CFG_MANUAL
			// one in three: the copy is deactivated and activated again before anything else is done with it (C01: exit() exits
			// the active state and then the root, an inactive machine names no state, enter() pairs up again)
			if (w.ch.draw(3) == 0) {
				const int was = sn.cur;
				opExit(sn);
				const char* const* saved = w.muteAllow;
				w.muteAllow = nullptr;
				const bool exited = sn.st.exits == 1 && sn.st.exitSid == was && (!cfg::HEAD || sn.st.rootExits == 1) && sn.st.enters == 0;
				if (sn.obj->isActive() || sn.obj->activeStateId() != ffsm2::INVALID_STATE_ID || !exited)
					w.V("C01", "deactivation-did-not-exit-state-then-root|copy-taken-inside-callback", fmt("a copy taken inside a callback (active in %d): exit() ran %u state exits (state %d), %u root exits; afterwards isActive()=%d activeStateId()=%u; %s", was, sn.st.exits, sn.st.exitSid, sn.st.rootExits, int(sn.obj->isActive()), sn.obj->activeStateId(), w.tail().c_str()));
				w.muteAllow = saved;
				w.stats.add("snapshot_exit_enter_cycles");
				// (re-)establish what is known about it: inactive, nothing outstanding
				sn.cur = -1; sn.rootIn = false;
				opEnter(sn);
				const ffsm2::StateID again = sn.obj->activeStateId();
				sn.cur = again == ffsm2::INVALID_STATE_ID ? -1 : static_cast<int>(again);
				sn.rootIn = sn.cur >= 0;
				if (sn.cur < 0) { w.muteAllow = nullptr; w.V("C01", "machine-activity-vs-pairing|reports-inactive|copy-taken-inside-callback", "enter() on the exited copy left it inactive"); w.muteAllow = ONLY_C05; opDestroy(4); w.muteAllow = nullptr; return; }
			}
#endif
			// one in four: the very first request the copy processes is vetoed by all of its guards - it stays where it is and
			// runs no exit/enter (C03), whatever transition the original was evaluating when the copy was taken
			if (w.ch.draw(4) == 0) {
				const int was = sn.cur;
				sn.policy = POL_VETO;
				opChange(sn, static_cast<uint8_t>(w.ch.draw(N)), false, true);
				sn.policy = POL_PASSIVE;
				const char* const* saved = w.muteAllow;
				w.muteAllow = nullptr;
				const ffsm2::StateID now = sn.obj->activeStateId();
				if (static_cast<int>(now) != was || sn.st.exits || sn.st.enters || sn.st.reenters)
					w.V("C03", "cancelled-transition-applied|copy-taken-inside-callback", fmt("a copy taken inside a callback (active in %d): every guard vetoed its first request, yet it ran %u exits / %u enters / %u reenters and is in state %u now; %s", was, sn.st.exits, sn.st.enters, sn.st.reenters, now, w.tail().c_str()));
				w.muteAllow = saved;
				w.stats.add("snapshot_vetoed_first_requests");
				const ffsm2::StateID again = sn.obj->activeStateId();
				sn.cur = again == ffsm2::INVALID_STATE_ID ? -1 : static_cast<int>(again);
			}
			opUpdate(sn);
			opReact(sn, 6 + (w.caseNo & 1));
			opQuery(sn);
			opUpdate(sn);
			w.stats.add("snapshot_copies_cycled");
			// its guards let everything pass, so an immediate change has exactly one possible outcome - whatever the copy
			// was in the middle of when it was taken (C02: the request is applied; C11: the history describes that step)
			const unsigned tries = N <= 8 ? N : 8;
			for (unsigned t = 0; t < tries && !w.stopCase; ++t) {
				const uint8_t d = static_cast<uint8_t>(N <= 8 ? t : w.ch.draw(N));
				opChange(sn, d, false, true);
				const ffsm2::StateID now = sn.obj->activeStateId();
				const char* const* saved = w.muteAllow;
				w.muteAllow = nullptr;
				if (now != d)
					w.V("C02", "applied-destination!=last-survivor|copy-taken-inside-callback", fmt("a copy taken inside a callback, guards passing everything: immediateChangeTo(%u) left it in state %u; %s", d, now, w.tail().c_str()));
#if HAS_HISTORY
				{
					const Req pt = toReq(sn.obj->previousTransition());
					if (now == d && !(pt.valid && pt.dest == d && pt.origin == 255 && !pt.hasPay))
						w.V("C11", "previousTransition!=applied|copy-taken-inside-callback", fmt("a copy taken inside a callback: after immediateChangeTo(%u) previousTransition() is %s; %s", d, pt.str().c_str(), w.tail().c_str()));
					else if (now != d && pt.valid && pt.dest != now)
						w.V("C11", "previousTransition-destination-not-active|copy-taken-inside-callback", fmt("a copy taken inside a callback: immediateChangeTo(%u) applied nothing (state %u) yet previousTransition() is %s", d, now, pt.str().c_str()));
				}
#endif
				w.muteAllow = saved;
				w.stats.add("snapshot_immediate_changes");
			}
			opDestroy(4);
			w.muteAllow = nullptr;
			return;
		}
		// an inactive snapshot (taken while the machine was being activated)
		w.stats.add("snapshot_copies_inactive");
#if CFG_MANUAL
#if HAS_SERIAL
		if (A().alive && A().cur >= 0) {
			// C12: load() into any instance, whatever its own state - this one has never been entered
			GuardedBuffer g = opSave(A());
			const int activity = A().cur;
			w.muteAllow = ONLY_LOAD;
			sn.policy = POL_HOSTILE;
			w.apiBegin(sn, OP_LOAD, static_cast<uint8_t>(activity));
			LIB(sn.obj->load(g.buf));
			w.apiEnd(sn);
			const int got = sn.obj->activeStateId() == ffsm2::INVALID_STATE_ID ? -1 : sn.obj->activeStateId();
			if (got != activity) w.V("C12", "loader-activity-differs-from-saver", fmt("saver activity %d, snapshot after load() %d; %s", activity, got, w.tail().c_str()));
			sn.policy = POL_PASSIVE;
			w.stats.add("loads_into_inactive_snapshots");
			if (sn.cur >= 0) opExit(sn);
		}
#endif
		w.muteAllow = ONLY_C05;
		opDestroy(4);
		w.muteAllow = nullptr;
#else
		// an automatically activated machine that is inactive only exists as a copy taken during the original's
		// constructor; its destructor would run the final exit on it (asserted against) - the storage is abandoned
		sn.alive = false;
#endif
	}

	// the machine is moved to another address and back (move construction; the object moved from is destroyed each
	// time): the history simply continues on the new object, so every monitor keeps its expectations
	void relocate() {
#if CFG_CTX != 2   // (a machine holding a reference context is not move-constructible)
		Inst& a = A();
		Inst& c = Cp();
		if (c.alive || !a.alive) return;
		for (int leg = 0; leg < 2; ++leg) {
			Inst& from = leg == 0 ? a : c;
			Inst& to = leg == 0 ? c : a;
			const unsigned toSlot = leg == 0 ? 3 : 0;
			const bool hadLogger = from.loggerAttached;
			to = from;
			to.slot = static_cast<uint8_t>(toSlot);
			prefill(toSlot, w.caseNo + 2000 + leg);
			to.obj = reinterpret_cast<Instance*>(g_store[toSlot]);
			const size_t e0 = w.events.size();
			w.apiBegin(to, OP_MOVE);
			LIB(new (g_store[toSlot]) Instance(static_cast<Instance&&>(*from.obj)));
			w.apiEnd(to);
			to.alive = true;
			for (size_t i = e0; i < w.events.size(); ++i)
				if (w.events[i].kind == EV_SUB) { w.V("C01", "move-construction-ran-callbacks", fmt("move construction delivered %s", evStr(w.events[i]).c_str())); break; }
#if HAS_LOG
			if (hadLogger) opAttach(to, true);   // the logger object of the new slot
#endif
			checkObs(to, "move construction");
			// the object moved from is a machine of its own now; it is destroyed at once (an automatically activated one exits)
			from.policy = POL_PASSIVE;
			opDestroy(from.slot);
			to.policy = POL_CHOOSER;
			w.stats.add("move_constructions");
		}
#endif
	}

	// ------------------------------------------------------------------
	void run(unsigned maxOps) {
		// logger attachment is decided by the aux stream so that the main decision stream is the
		// same in builds with and without the log interface (C16 differential)
		logMode = HAS_LOG ? (w.aux.below(10) < 6 ? 0 : w.aux.below(10) < 3 ? 1 : 2) : 1;
		const unsigned forced = static_cast<unsigned>(g_args.num("logmode", 9));
		if (forced != 9) logMode = forced;
		w.logToggleInCallbacks = HAS_LOG && logMode == 2 && !cfg::BARE;
		opConstruct(0, POL_CHOOSER, logMode == 0 || (logMode == 2 && w.aux.chance(1, 2)));
		Inst& a = A();
#if CFG_MANUAL
		if (w.ch.chance(1, 8)) { OpDesc d; d.op = OP_COPY; copyCheck(); }
#if HAS_SERIAL
		if (w.ch.chance(1, 8)) saveLoad();
#endif
		opEnter(a);
#endif
#if HAS_HISTORY
		if (w.ch.chance(3, 5)) replicaStart();
#endif
		unsigned nOps = 1 + w.ch.draw(maxOps);
		if (w.ch.chance(1, 25)) nOps *= 12;   // now and then a long history
		for (unsigned i = 0; i < nOps && !w.stopCase; ++i) {
			if (w.snapPending) snapshotCheck();
			if (HAS_LOG && logMode == 2 && w.aux.chance(1, 6)) opAttach(a, !a.loggerAttached);
			const OpDesc d = pickOp();
			switch (d.op) {
			case OP_SAVE: saveLoad(); break;
			case OP_COPY: if (CFG_CTX != 2 && w.ch.chance(1, 3)) relocate(); else copyCheck(); break;
#if CFG_MANUAL
			case OP_ENTER: opEnter(a); replicaFollowActivation(); break;
			case OP_EXIT:
				opExit(a);
#if HAS_HISTORY
				if (replicaOn && R().cur >= 0) { R().policy = POL_HOSTILE; opExit(R()); }
#endif
				break;
#endif
			default:
				perform(a, d);
				replicaFollowStep(d);
				break;
			}
		}
		// wind down
		if (w.snapPending) snapshotCheck();
#if CFG_MANUAL
		if (a.cur >= 0 && w.ch.chance(7, 8)) opExit(a);
		for (unsigned s = 1; s < 4; ++s) if (w.inst[s].alive && w.inst[s].cur >= 0) { w.inst[s].policy = POL_PASSIVE; opExit(w.inst[s]); }
#endif
		for (unsigned s = 0; s < 4; ++s) if (w.inst[s].alive) { if (s) w.inst[s].policy = POL_PASSIVE; opDestroy(s); }
		if (w.snapPending) snapshotCheck();   // taken during the wind-down itself
	}
};

#if HAS_SERIAL
#endif

// ---------------------------------------------------------------------------

static Profile makeProfile(World& w) {
	Profile p;
	const uint32_t k = w.ch.pick({5, 3, 3, 2, 2, 1});
	switch (k) {
	case 0: break;
	case 1: p.name = "guard-hostile"; p.guardActs = 75; p.cbActs = 35; p.wExtChange = 20; p.wImmediate = 16; break;
	case 2: p.name = "plan-heavy"; p.cbActs = 45; p.wReport = 14; p.wPlan = 12; p.wExtPlan = 22; p.wExtReport = 12; p.wChange = 4; p.guardActs = 12; p.lifeActs = 15; break;
	case 3: p.name = "ping-pong"; p.pingPong = true; p.wExtChange = 20; p.wImmediate = 20; p.cbActs = 15; break;
	case 4: p.name = "calm"; p.cbActs = 8; p.guardActs = 6; p.lifeActs = 2; break;
	default: p.name = "relentless"; p.pingPong = true; p.relentless = true; p.wExtChange = 20; p.wImmediate = 25; p.cbActs = 10; break;
	}
	return p;
}

static uint64_t caseDigest(const World& w) { return w.caseHash; }

static uint32_t nontrivialMask(const std::string& prop) {
	if (prop == "C01" || prop == "C14") return F_TRANSITION;
	if (prop == "C02") return F_ROUND;
	if (prop == "C03") return F_VETO | F_REDIRECT;
	if (prop == "C04") return F_REDIRECT | F_LIMIT;
	if (prop == "C05") return F_CYCLE | F_QUERY;
	if (prop == "C06") return F_GUARDVIEW;
	if (prop == "C07") return F_PAYLOAD;
	if (prop == "C08") return F_FIRE;
	if (prop == "C09") return F_OUTCOME | F_REPORT;
	if (prop == "C10") return F_PLANFULL | F_PLANEDIT;
	if (prop == "C11") return F_REPLAY;
	if (prop == "C12") return F_LOAD;
	if (prop == "C15") return F_INJ;
	if (prop == "C16") return F_LOG;
	if (prop == "C17") return F_COPY;
	return ~0u;
}

static void writeReplay(const World& w, const std::string& path, const char* mode) {
	FILE* f = fopen(path.c_str(), "w");
	if (!f) return;
	fprintf(f, "fsmmon-replay 1\ncfgname %s\nconfig %s\nmode %s\nseed %llu\ncase %llu\nfill %u\nlogmode %ld\nmaxops %ld\ndraws %zu\n", g_args.str("cfgname", "?").c_str(), cfg::name(), mode,
			(unsigned long long) g_args.seed, (unsigned long long) w.caseNo, g_fill, g_args.num("logmode", 9), g_args.num("ops", 0), w.ch.drawn.size());
	for (size_t i = 0; i < w.ch.drawn.size(); ++i) fprintf(f, "%u%c", w.ch.drawn[i], (i + 1) % 32 ? ' ' : '\n');
	fprintf(f, "\ntrace:\n");
	for (const Ev& e : w.events) fprintf(f, "%s\n", evStr(e).c_str());
	fclose(f);
}

static void resetWorld(World& w) {
	w.events.clear();
	w.caseHash = 1234567;
	w.viols.clear();
	for (auto& i : w.inst) i = Inst{};
	w.cur = nullptr; w.probe = false; w.curEvent = nullptr; w.tagCounter = 0; w.inUser = 0; w.inApi = false;
	w.ownRequest = w.ownReport = w.ownCancel = false; w.ownLogCount = 0; w.stopCase = false; w.flags = 0; w.immOwn = false; w.immCount = 0;
	w.ch.beginCase();
}

static unsigned g_violCases = 0;

static void finishCase(World& w, const char* mode) {
	const std::string& prop = g_args.prop;
	w.stats.add("cases");
	w.stats.add2("profiles", w.prof.name);
	const uint64_t dg = caseDigest(w);
	g_digests.push_back(dg);
	if (w.flags & nontrivialMask(prop)) g_sigs.insert(dg);
	if (w.events.size() >= w.events.capacity()) w.stats.add("cases_truncated_event_log");
	bool any = false;
	for (const Violation& v : w.viols) {
		w.stats.add2("violations_seen_all_properties", v.prop);
		if (!prop.empty() && prop != "ALL" && v.prop != prop) continue;
		any = true;
		const std::string key = v.key;
		std::string path = fmt("%s/%s-%s-%llu-%zu.replay", g_args.out.c_str(), v.prop.c_str(), cfg::name(), (unsigned long long) w.caseNo, g_rep.seen.size());
		if (g_rep.seen.count(v.prop + "|" + key) == 0) writeReplay(w, path, mode);
		g_rep.report(v.prop.c_str(), key, fmt("[%s %s case %llu] %s", cfg::name(), mode, (unsigned long long) w.caseNo, v.msg.c_str()), path);
	}
	if (any) ++g_violCases;
	if (g_samples.size() < 3 && w.events.size() > 12 && (w.flags & nontrivialMask(prop))) {
		std::string s = "{\"config\":\"" + std::string(cfg::name()) + "\",\"profile\":\"" + w.prof.name + "\",\"case\":" + std::to_string(w.caseNo) + ",\"trace\":\"";
		size_t n = 0;
		for (const Ev& e : w.events) { if (n++ > 70) { s += "..."; break; } s += vh::jesc(evStr(e)) + " "; }
		s += "\"}";
		g_samples.push_back(s);
	}
}

static void runRandom(World& w) {
	const long shard = g_args.num("shard", 0), shards = g_args.num("shards", 1);
	const unsigned cases = static_cast<unsigned>(g_args.num("cases", 200));
	const unsigned maxOps = static_cast<unsigned>(g_args.num("ops", 24));
	const long only = g_args.num("case", -1);
	for (unsigned c = 0; c < cases; ++c) {
		if (static_cast<long>(c % shards) != shard) continue;
		if (only >= 0 && c != static_cast<unsigned>(only)) continue;
		resetWorld(w);
		w.caseNo = c;
		w.ch.mode = Chooser::RANDOM;
		w.ch.rng.reseed(g_args.seed * 1000003ull + c * 7919ull + 13);
		w.aux.reseed(g_args.seed * 9176ull + c * 31ull + 5);
		w.prof = makeProfile(w);
		Case cs(w);
		cs.run(maxOps);
		finishCase(w, "random");
	}
}

static void runReplay(World& w, const std::string& path) {
	FILE* f = fopen(path.c_str(), "r");
	if (!f) { printf("@STAT {\"replay_error\":1}\n"); return; }
	char line[256];
	unsigned long long seed = 1, cno = 0; unsigned fill = 0; size_t nd = 0; long logmode = 9, maxops = 24; char mode[32] = "random";
	while (fgets(line, sizeof line, f)) {
		if (sscanf(line, "seed %llu", &seed) == 1) continue;
		if (sscanf(line, "case %llu", &cno) == 1) continue;
		if (sscanf(line, "fill %u", &fill) == 1) continue;
		if (sscanf(line, "logmode %ld", &logmode) == 1) continue;
		if (sscanf(line, "maxops %ld", &maxops) == 1) continue;
		if (sscanf(line, "mode %31s", mode) == 1) continue;
		if (sscanf(line, "draws %zu", &nd) == 1) break;
	}
	std::vector<uint32_t> draws;
	unsigned v;
	while (draws.size() < nd && fscanf(f, "%u", &v) == 1) draws.push_back(v);
	fclose(f);
	g_fill = fill;
	g_args.kv["logmode"] = std::to_string(logmode);
	resetWorld(w);
	w.caseNo = cno;
	w.ch.mode = Chooser::SCRIPT;
	w.ch.script = draws;
	w.aux.reseed(seed * 9176ull + cno * 31ull + 5);
	g_args.seed = seed;
	if (strcmp(mode, "enum") == 0) {
		// enumerated cases are replayed by the enum driver with a fixed decision vector
		extern void runEnumCase(World&, bool);
		runEnumCase(w, true);
	} else {
		w.prof = makeProfile(w);
		Case cs(w);
		cs.run(static_cast<unsigned>(maxops > 0 ? maxops : 24));
	}
	finishCase(w, "replay");
}

// ---------------------------------------------------------------------------
// bounded-exhaustive enumeration of guard decisions (C03, C04): from every start state, through
// every request source, every combination of {pass, cancel, redirect->x, cancel+redirect->x} in
// every guard callback of the call

void runEnumCase(World& w, bool replay) {
	(void) replay;
	Profile p; p.name = "enum-guards"; p.guardsOnly = true;
	w.prof = p;
	// the first draws select the scenario: request source, then start state and destination
	const unsigned nSources = HAS_PLANS ? 5 : 4;
	const unsigned source = w.ch.draw(nSources);   // 0 immediateChangeTo, 1 changeTo+update, 2 changeTo+react, 3 activation, 4 plan task
	if (source == 3) {
		// activation: every combination of decisions of the (root and) state entry guards
		opConstruct(0, POL_CHOOSER, HAS_LOG);
		Inst& a = w.inst[0];
#if CFG_MANUAL
		opEnter(a);
#endif
		a.policy = POL_PASSIVE;
		if (!w.stopCase && a.cur >= 0) opUpdate(a);   // a redirect left over at the limit meets (passing) guards here
#if CFG_MANUAL
		if (a.cur >= 0) opExit(a);
#endif
		opDestroy(0);
		return;
	}
	const unsigned start = w.ch.draw(N);
	const unsigned dest = w.ch.draw(N);
	opConstruct(0, POL_PASSIVE, HAS_LOG);
	Inst& a = w.inst[0];
#if CFG_MANUAL
	opEnter(a);
#endif
	if (a.cur != static_cast<int>(start)) opChange(a, static_cast<uint8_t>(start), false, true);
	a.policy = POL_CHOOSER;
	switch (source) {
	case 0: opChange(a, static_cast<uint8_t>(dest), false, true); break;
	case 1: opChange(a, static_cast<uint8_t>(dest), false, false); opUpdate(a); break;
	case 2: opChange(a, static_cast<uint8_t>(dest), false, false); opReact(a, 1); break;
	default:
#if HAS_PLANS
		opPlanEdit(a, 0, static_cast<uint8_t>(start), static_cast<uint8_t>(dest), false, 0);
		opReport(a, true, static_cast<uint8_t>(start));
		opUpdate(a);
#endif
		break;
	}
	// a second processing point with passing guards: a request left over at the limit must meet guards first
	a.policy = POL_PASSIVE;
	if (!w.stopCase) opUpdate(a);
#if CFG_MANUAL
	if (a.cur >= 0) opExit(a);
#endif
	opDestroy(0);
}

static void runEnum(World& w) {
	const long shard = g_args.num("shard", 0), shards = g_args.num("shards", 1);
	const uint64_t maxCases = static_cast<uint64_t>(g_args.num("maxcases", 50000000));
	w.ch.mode = Chooser::ENUM;
	w.ch.script.clear(); w.ch.arity.clear();
	// shard by the first decision (start state) and second (source): prefix filter
	uint64_t n = 0, mine = 0;
	bool more = true;
	while (more && n < maxCases) {
		resetWorld(w);
		w.caseNo = n;
		// peek at the scenario prefix to shard without running foreign cases
		const uint64_t s0 = w.ch.script.size() > 0 ? w.ch.script[0] : 0, s1 = w.ch.script.size() > 1 ? w.ch.script[1] : 0, s2 = w.ch.script.size() > 2 ? w.ch.script[2] : 0;
		const uint64_t prefixKey = s0 == 3 ? (s1 % 8) * 3 + 1 : s0 * 64 + s1 * 8 + s2;
		if (static_cast<long>(prefixKey % static_cast<uint64_t>(shards)) == shard) {
			runEnumCase(w, false);
			finishCase(w, "enum");
			++mine;
		} else {
			// consume the scenario draws only, so that the odometer steps over the whole foreign sub-tree
			const unsigned src = w.ch.draw(HAS_PLANS ? 5 : 4);
			if (src == 3) w.ch.draw(2 + 2 * N); else { w.ch.draw(N); w.ch.draw(N); }
		}
		++n;
		more = w.ch.enumNext();
	}
	w.stats.add("enum_cases_total_space_visited", n);
	w.stats.add("enum_cases_run", mine);
	if (!more) w.stats.add("enum_space_exhausted", 1);
}

int main(int argc, char** argv) {
	g_args = vh::parseArgs(argc, argv);
	g_fill = static_cast<unsigned>(g_args.num("fill", 0));
	static World world;
	W = &world;
	world.events.reserve(1u << 15);
#if HAS_LOG
	world.attachHook = [](Inst& in, bool attach) {
		g_lg[in.slot].slot = in.slot;
		LIB(in.obj->attachLogger(attach ? &g_lg[in.slot] : nullptr));
		in.loggerAttached = attach;
	};
#endif
	// (not with states that are visible through an attached verbose logger only: the snapshot has no logger of its own)
#if HAS_SERIAL
	// save() is a const observer: called from inside any callback it writes the bytes of the activity the machine reports there
	world.saveInCallbackHook = [](Inst& in) {
		World& w = *W;
		const ffsm2::StateID act = in.obj->activeStateId();
		if (act == ffsm2::INVALID_STATE_ID) return;   // being activated / deactivated: nothing is promised about the form
		GuardedBuffer g;
		static_cast<const Instance*>(in.obj)->save(g.buf);
		const unsigned key = 1 + static_cast<unsigned>(act);
		if (!g.intact()) w.V("C12", "save-wrote-outside-buffer", "save() called inside a callback damaged the canary bytes around the SerialBuffer object");
		if (key <= N && g_canonKnown[key] && g_canon[key] != g.bytes())
			w.V("C12", "buffers-differ-for-equal-activity|saved-inside-callback", fmt("save() called inside a callback while activeStateId()=%u produced bytes that differ from the form of that activity; %s", act, w.tail().c_str()));
		w.stats.add("saves_inside_callbacks");
	};
#endif
	if (!cfg::BARE) world.snapshotHook = [](Inst& in, ffsm2::Method m) {
		World& w = *W;
		prefill(4, w.caseNo + 3000);
		w.inSnapshotCopy = true;
		LIB(new (g_store[4]) Instance(*in.obj));
		w.inSnapshotCopy = false;
		Instance* const sn = reinterpret_cast<Instance*>(g_store[4]);
#if HAS_LOG
		LIB(sn->attachLogger(nullptr));   // the authority's logger stays the authority's
#endif
		// C17: equal to the original at the moment of copying - whatever that moment is
		if (sn->activeStateId() != in.obj->activeStateId())
			w.V("C17", "copy-not-observationally-equal|activity|taken-inside-callback", fmt("copy taken inside %s (during %s): the original reports active state %u, the copy %u; %s", mname(m), opName(in.st.op), in.obj->activeStateId(), sn->activeStateId(), w.tail().c_str()));
#if HAS_HISTORY
		if (!toReq(sn->previousTransition()).same(toReq(in.obj->previousTransition())))
			w.V("C17", "copy-not-observationally-equal|previousTransition|taken-inside-callback", fmt("copy taken inside %s: previousTransition() differs from the original's", mname(m)));
#endif
#if HAS_PLANS
		if (!samePlan(readPlan(static_cast<const Instance*>(sn)->plan()), readPlan(static_cast<const Instance*>(in.obj)->plan())))
			w.V("C17", "copy-not-observationally-equal|plan|taken-inside-callback", fmt("copy taken inside %s: the plan differs from the original's", mname(m)));
#endif
		for (unsigned i = 0; i < 32; ++i) { w.snapSuccMay[i] = in.succMay[i]; w.snapFailMay[i] = in.failMay[i]; }
		w.snapTasksAdded = in.tasksAdded;
		w.snapPending = true;
		w.stats.add2("snapshots_taken_inside", mname(m));
		if (in.st.op == OP_CTOR) w.stats.add("snapshots_taken_during_construction");
	};
	world.readPlanHook = [](Inst& in) {
#if HAS_PLANS
		bool ok = true;
		in.actualPlan = readPlan(static_cast<const Instance*>(in.obj)->plan(), &ok);
		in.actualPlanKnown = true;
#else
		(void) in;
#endif
	};
	g_countAllocs = true;
	if (!g_args.replay.empty()) runReplay(world, g_args.replay);
	else if (g_args.str("mode", "random") == "enum") runEnum(world);
	else runRandom(world);
	g_countAllocs = false;
	world.stats.add("events", world.nEvents);
	world.stats.add("allocations_in_ffsm2_scope", g_allocsInScope);
	world.stats.add("violating_cases", g_violCases);
	world.stats.add2("configs", cfg::name());
	world.stats.emit();
	vh::writeSigs(g_args.str("sigfile", ""), g_sigs);
	const std::string df = g_args.str("digestfile", "");
	if (!df.empty()) { FILE* f = fopen(df.c_str(), "wb"); if (f) { fwrite(g_digests.data(), 8, g_digests.size(), f); fclose(f); } }
	for (auto& s : g_samples) vh::emitSample(s);
	return 0;
}
