// Configuration plumbing probe: the five configuration aliases (ContextT, SubstitutionLimitN, PayloadT,
// TaskCapacityN, ManualActivation) chained in every one of their 120 orders must describe the same machine:
// the substitution limit (C04), the task capacity (C10), the context type (C06), the payload type (C07) and
// the activation mode (C01) a program asked for may not depend on the order in which it asked.
// The values are read from the machine type the library derives (FSM::SUBSTITUTION_LIMIT, ...), and every
// order is also instantiated and run for a few steps.

#include VERIF_FFSM2_HEADER

#include "vh.hpp"

#include <type_traits>

namespace {

struct Ctx { int hits = 0; };
struct Pay { uint16_t a; uint8_t b; };

constexpr unsigned L = 7;
constexpr unsigned CAP = 11;
constexpr unsigned NSTATES = 3;

template <typename TCfg> struct WithContext { using Type = typename TCfg::template ContextT<Ctx&>; };
template <typename TCfg> struct WithLimit { using Type = typename TCfg::template SubstitutionLimitN<L>; };
template <typename TCfg> struct WithPayload { using Type = typename TCfg::template PayloadT<Pay>; };
template <typename TCfg> struct WithManual { using Type = typename TCfg::ManualActivation; };
#ifdef FFSM2_ENABLE_PLANS
template <typename TCfg> struct WithCapacity { using Type = typename TCfg::template TaskCapacityN<CAP>; };
#else
template <typename TCfg> struct WithCapacity { using Type = TCfg; };
#endif

template <template <typename> class... TSteps> struct Apply;
template <> struct Apply<> { template <typename TCfg> using To = TCfg; };
template <template <typename> class TFirst, template <typename> class... TRest>
struct Apply<TFirst, TRest...> { template <typename TCfg> using To = typename Apply<TRest...>::template To<typename TFirst<TCfg>::Type>; };

vh::Reporter g_rep;
vh::Stats g_stats;
vh::Args g_args;

void viol(const char* prop, const std::string& key, const std::string& msg) {
	if (!g_args.prop.empty() && g_args.prop != "ALL" && g_args.prop != prop) return;
	g_rep.report(prop, key, msg);
}

template <typename TConfig>
struct Probe {
	using M = ffsm2::MachineT<TConfig>;
	struct A; struct B; struct C;
	using FSM = typename M::template PeerRoot<A, B, C>;
	// every entry guard redirects onwards: a processing call runs until the substitution limit stops it
	struct Base : FSM::State {
		using GuardControl = typename FSM::GuardControl;
		void entryGuard(GuardControl& c) { ++c.context().hits; c.changeTo(static_cast<ffsm2::StateID>((c.stateId() + 1) % NSTATES)); }
	};
	struct A : Base {}; struct B : Base {}; struct C : Base {};

	static void run(const char* order) {
		const std::string o = order;
		if (FSM::SUBSTITUTION_LIMIT != L)
			viol("C04", "configured-limit-lost|alias-order", "chain " + o + ": the machine's substitution limit is " + std::to_string(unsigned(FSM::SUBSTITUTION_LIMIT)) + ", configured " + std::to_string(L));
#ifdef FFSM2_ENABLE_PLANS
		if (FSM::TASK_CAPACITY != CAP)
			viol("C10", "configured-capacity-lost|alias-order", "chain " + o + ": the machine's task capacity is " + std::to_string(unsigned(FSM::TASK_CAPACITY)) + ", configured " + std::to_string(CAP));
#endif
		if (!std::is_same<typename FSM::Context, Ctx&>::value) viol("C06", "configured-context-lost|alias-order", "chain " + o + ": the machine's context type is not the configured one");
		if (!std::is_same<typename FSM::Payload, Pay>::value) viol("C07", "configured-payload-lost|alias-order", "chain " + o + ": the machine's payload type is not the configured one");
		if (!std::is_same<typename TConfig::Activation, ffsm2::Manual>::value) viol("C01", "configured-activation-lost|alias-order", "chain " + o + ": the machine is not manually activated");
		// behaviour: manual activation, limit and capacity as configured
		Ctx ctx;
		typename FSM::Instance m(ctx);
		if (m.isActive()) viol("C01", "configured-activation-lost|alias-order", "chain " + o + ": active after construction although ManualActivation was requested");
		m.enter();
		const int activationRounds = ctx.hits;
		if (activationRounds != static_cast<int>(1 + L)) viol("C04", "activation-round-limit|alias-order", "chain " + o + ": activation evaluated " + std::to_string(activationRounds) + " entry guards, expected 1+" + std::to_string(L));
		ctx.hits = 0;
		m.immediateChangeTo(1);
		if (ctx.hits != static_cast<int>(L)) viol("C04", "round-limit|alias-order", "chain " + o + ": immediateChangeTo() evaluated " + std::to_string(ctx.hits) + " guard rounds, expected " + std::to_string(L));
#ifdef FFSM2_ENABLE_PLANS
		unsigned accepted = 0;
		for (unsigned i = 0; i < CAP + 4; ++i) if (m.plan().change(static_cast<ffsm2::StateID>(i % NSTATES), static_cast<ffsm2::StateID>((i + 1) % NSTATES))) ++accepted;
		if (accepted != CAP) viol("C10", "configured-capacity-lost|alias-order", "chain " + o + ": " + std::to_string(accepted) + " appends accepted, configured capacity " + std::to_string(CAP));
#endif
		m.exit();
		g_stats.add("orders_checked");
	}
};

}

int main(int argc, char** argv) {
	g_args = vh::parseArgs(argc, argv);
#define ORDER(a, b, c, d, e, name) Probe<Apply<a, b, c, d, e>::To<ffsm2::Config>>::run(name);
#include "cfg_orders.inc"
#undef ORDER
	g_stats.emit();
	printf("@SAMPLE {\"orders\":120,\"limit\":%u,\"capacity\":%u}\n", L, CAP);
	return 0;
}
