// C16, non-verbose logging: "every method record corresponds to a delivery to that state" - a state whose class
// defines no callback (or not that callback) is delivered nothing, so the non-verbose logger records nothing for it
// (verbose logging is what records those), and a callback the class does define is recorded once per delivery.  The
// react family and query are function templates in the library's default stubs and are recorded for every state in
// every logging build; they are not judged here.
// States without injections that define nothing / only some callbacks cannot be followed by the behavioural monitor
// (it sees a machine through its callbacks), hence this small dedicated monitor.  The state classes are assembled from
// one mix-in per callback: for each of the eight state callbacks X there is a state defining only X and a state
// defining everything but X (so a record keyed on the wrong callback shows either as a missing or as a spurious
// record), two states define nothing; the root head comes in four variants, variant v defining the callbacks whose
// number has bit v set (any two callbacks differ in some variant), plan outcome callbacks included.

#define FFSM2_ENABLE_LOG_INTERFACE
#define FFSM2_ENABLE_PLANS
#define FFSM2_ENABLE_TRANSITION_HISTORY
#include VERIF_FFSM2_HEADER

#include "vh.hpp"

namespace {

struct Ev { int v; };

using M = ffsm2::MachineT<ffsm2::Config::ManualActivation>;
using ffsm2::Method;

constexpr unsigned NS = 18;          // states
constexpr unsigned ROOT = 31;
unsigned g_delivered[32][16];        // [state id or ROOT][method]: callbacks that really ran
bool g_succeed = false, g_fail = false;

void ran(unsigned sid, Method m) { ++g_delivered[sid][static_cast<unsigned>(m)]; }

// the judged callbacks, numbered 0..9 (8, 9: the plan outcome callbacks of the head)
constexpr Method JUDGED[10] = {Method::ENTRY_GUARD, Method::ENTER, Method::REENTER, Method::PRE_UPDATE, Method::UPDATE,
							   Method::POST_UPDATE, Method::EXIT_GUARD, Method::EXIT, Method::PLAN_SUCCEEDED, Method::PLAN_FAILED};
constexpr uint32_t ALL8 = 0xFF;
constexpr uint32_t stateMask(unsigned sid) { return sid < 8 ? 1u << sid : sid < 16 ? ALL8 & ~(1u << (sid - 8)) : 0u; }
constexpr uint32_t headMask(unsigned hv) {
	return ((((0 + 1) >> hv) & 1) << 0) | ((((1 + 1) >> hv) & 1) << 1) | ((((2 + 1) >> hv) & 1) << 2) | ((((3 + 1) >> hv) & 1) << 3) | ((((4 + 1) >> hv) & 1) << 4) |
		   ((((5 + 1) >> hv) & 1) << 5) | ((((6 + 1) >> hv) & 1) << 6) | ((((7 + 1) >> hv) & 1) << 7) | ((((8 + 1) >> hv) & 1) << 8) | ((((9 + 1) >> hv) & 1) << 9);
}

// one mix-in per callback; the primary template defines nothing
template <bool ON, typename TB, unsigned SID> struct MxEntryGuard : TB {};
template <typename TB, unsigned SID> struct MxEntryGuard<true, TB, SID> : TB { void entryGuard(typename TB::GuardControl&) { ran(SID, Method::ENTRY_GUARD); } };
template <bool ON, typename TB, unsigned SID> struct MxEnter : TB {};
template <typename TB, unsigned SID> struct MxEnter<true, TB, SID> : TB { void enter(typename TB::PlanControl&) { ran(SID, Method::ENTER); } };
template <bool ON, typename TB, unsigned SID> struct MxReenter : TB {};
template <typename TB, unsigned SID> struct MxReenter<true, TB, SID> : TB { void reenter(typename TB::PlanControl&) { ran(SID, Method::REENTER); } };
template <bool ON, typename TB, unsigned SID> struct MxPreUpdate : TB {};
template <typename TB, unsigned SID> struct MxPreUpdate<true, TB, SID> : TB { void preUpdate(typename TB::FullControl&) { ran(SID, Method::PRE_UPDATE); } };
template <bool ON, typename TB, unsigned SID> struct MxUpdate : TB {};
template <typename TB, unsigned SID> struct MxUpdate<true, TB, SID> : TB {
	void update(typename TB::FullControl& c) { ran(SID, Method::UPDATE); if (SID != ROOT) { if (g_succeed) c.succeed(); if (g_fail) c.fail(); } }
};
template <bool ON, typename TB, unsigned SID> struct MxPostUpdate : TB {};
template <typename TB, unsigned SID> struct MxPostUpdate<true, TB, SID> : TB { void postUpdate(typename TB::FullControl&) { ran(SID, Method::POST_UPDATE); } };
template <bool ON, typename TB, unsigned SID> struct MxExitGuard : TB {};
template <typename TB, unsigned SID> struct MxExitGuard<true, TB, SID> : TB { void exitGuard(typename TB::GuardControl&) { ran(SID, Method::EXIT_GUARD); } };
template <bool ON, typename TB, unsigned SID> struct MxExit : TB {};
template <typename TB, unsigned SID> struct MxExit<true, TB, SID> : TB { void exit(typename TB::PlanControl&) { ran(SID, Method::EXIT); } };
template <bool ON, typename TB, unsigned SID> struct MxPlanSucceeded : TB {};
template <typename TB, unsigned SID> struct MxPlanSucceeded<true, TB, SID> : TB { void planSucceeded(typename TB::FullControl&) { ran(SID, Method::PLAN_SUCCEEDED); } };
template <bool ON, typename TB, unsigned SID> struct MxPlanFailed : TB {};
template <typename TB, unsigned SID> struct MxPlanFailed<true, TB, SID> : TB { void planFailed(typename TB::FullControl&) { ran(SID, Method::PLAN_FAILED); } };

template <uint32_t MASK, typename TB, unsigned SID>
using Mixed =
	MxPlanFailed<(MASK >> 9 & 1) != 0, MxPlanSucceeded<(MASK >> 8 & 1) != 0, MxExit<(MASK >> 7 & 1) != 0, MxExitGuard<(MASK >> 6 & 1) != 0,
	MxPostUpdate<(MASK >> 5 & 1) != 0, MxUpdate<(MASK >> 4 & 1) != 0, MxPreUpdate<(MASK >> 3 & 1) != 0, MxReenter<(MASK >> 2 & 1) != 0,
	MxEnter<(MASK >> 1 & 1) != 0, MxEntryGuard<(MASK & 1) != 0, TB, SID>, SID>, SID>, SID>, SID>, SID>, SID>, SID>, SID>, SID>;

template <unsigned HV> struct Hd;
template <unsigned HV, unsigned SID> struct St;
template <unsigned HV> struct Types {
	using FSM = M::Root<Hd<HV>, St<HV, 0>, St<HV, 1>, St<HV, 2>, St<HV, 3>, St<HV, 4>, St<HV, 5>, St<HV, 6>, St<HV, 7>, St<HV, 8>,
						St<HV, 9>, St<HV, 10>, St<HV, 11>, St<HV, 12>, St<HV, 13>, St<HV, 14>, St<HV, 15>, St<HV, 16>, St<HV, 17>>;
};
template <unsigned HV> struct Hd : Mixed<headMask(HV), typename Types<HV>::FSM::State, ROOT> {};
template <unsigned HV, unsigned SID> struct St : Mixed<stateMask(SID), typename Types<HV>::FSM::State, SID> {};

constexpr uint32_t bit(Method m) { return 1u << static_cast<unsigned>(m); }
const uint32_t TEMPLATED = bit(Method::PRE_REACT) | bit(Method::REACT) | bit(Method::POST_REACT) | bit(Method::QUERY);
uint32_t definesBits(uint32_t mask) { uint32_t b = 0; for (unsigned j = 0; j < 10; ++j) if (mask >> j & 1) b |= bit(JUDGED[j]); return b; }

vh::Reporter g_rep;
vh::Stats g_stats;
vh::Args g_args;

const char* mname(Method m) { const char* n = ffsm2::methodName(m); return n ? n : "?"; }

template <unsigned HV>
struct Logger : Types<HV>::FSM::Logger {
	using Context = typename Types<HV>::FSM::Logger::Context;
	unsigned records[32][16] = {};
	void recordMethod(const Context&, const ffsm2::StateID origin, const Method method) override {
		const unsigned sid = origin == ffsm2::INVALID_STATE_ID ? ROOT : origin;
		if (sid != ROOT && sid >= NS) { g_rep.report("C16", "method-record-for-unknown-state", "record for state id " + std::to_string(unsigned(origin))); return; }
		++records[sid][static_cast<unsigned>(method) & 15];
		g_stats.add("method_records");
		const uint32_t defined = definesBits(sid == ROOT ? headMask(HV) : stateMask(sid));
		if (!((defined | TEMPLATED) & bit(method)))
			g_rep.report("C16", std::string("method-record-for-state-without-callback|") + mname(method),
						 "non-verbose logging recorded (" + std::to_string(unsigned(origin)) + "," + mname(method) + ") although the class of that state does not define the callback (head variant " + std::to_string(HV) + ")");
	}
};

template <unsigned HV>
void run() {
	using FSM = typename Types<HV>::FSM;
	memset(g_delivered, 0, sizeof g_delivered);
	g_succeed = g_fail = false;
	vh::Rng rng(g_args.seed * 7919 + 5 + HV * 104729);
	Logger<HV> logger;
	{
		typename FSM::Instance m(&logger);
		const unsigned steps = g_args.thorough() ? 40000 : 4000;
		for (unsigned i = 0; i < steps; ++i) {
			if (!m.isActive()) { m.enter(); continue; }
			switch (rng.below(13)) {
			case 0: case 1: case 2: m.update(); break;
			case 3: { Ev e{1}; m.react(e); break; }
			case 4: { Ev e{0}; static_cast<const typename FSM::Instance&>(m).query(e); break; }
			case 5: case 6: m.changeTo(static_cast<ffsm2::StateID>(rng.below(NS))); break;
			case 7: m.immediateChangeTo(static_cast<ffsm2::StateID>(rng.below(NS))); break;
			case 8: { const ffsm2::StateID o = static_cast<ffsm2::StateID>(rng.below(2) ? m.activeStateId() : rng.below(NS)); const ffsm2::StateID d = static_cast<ffsm2::StateID>(rng.below(NS)); m.plan().change(o, d); break; }
			case 9: g_succeed = !g_succeed; g_fail = false; m.succeed(m.activeStateId()); break;
			case 10: m.fail(m.activeStateId()); break;
			case 11: g_fail = rng.below(3) == 0; g_succeed = false; break;
			default: if (rng.below(6) == 0) m.exit(); break;
			}
			g_stats.add("operations");
		}
		if (m.isActive()) m.exit();
	}
	// the converse on the callbacks that exist: as many records as deliveries
	for (unsigned s = 0; s <= NS; ++s) {
		const unsigned sid = s == NS ? ROOT : s;
		const uint32_t mask = sid == ROOT ? headMask(HV) : stateMask(sid);
		for (unsigned j = 0; j < 10; ++j) {
			if (!(mask >> j & 1)) continue;
			const unsigned k = static_cast<unsigned>(JUDGED[j]);
			if (g_delivered[sid][k]) g_stats.add2("defined_callbacks_delivered", mname(JUDGED[j]));
			if (logger.records[sid][k] != g_delivered[sid][k])
				g_rep.report("C16", std::string("records!=deliveries|defined-callback|") + mname(JUDGED[j]),
							 (sid == ROOT ? std::string("root head variant ") + std::to_string(HV) : "state " + std::to_string(sid)) + " " + mname(JUDGED[j]) + ": " + std::to_string(g_delivered[sid][k]) + " deliveries, " + std::to_string(logger.records[sid][k]) + " records");
		}
	}
}

}

int main(int argc, char** argv) {
	g_args = vh::parseArgs(argc, argv);
	run<0>(); run<1>(); run<2>(); run<3>();
	g_stats.emit();
	printf("@SAMPLE {\"program\":\"lognv\",\"states\":\"only-X and all-but-X for each of the 8 state callbacks, 2 bare; 4 root head variants\"}\n");
	return 0;
}
