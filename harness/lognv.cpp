// C16, non-verbose logging: "every method record corresponds to a delivery to that state" - a state whose class
// defines no callback (or not that callback) is delivered nothing, so the non-verbose logger records nothing for it
// (verbose logging is what records those).  The react family and query are function templates in the library's
// default stubs and are recorded for every state in every logging build; they are not judged here.
// States without injections that define nothing / only some callbacks cannot be followed by the behavioural monitor
// (it sees a machine through its callbacks), hence this small dedicated monitor.

#define FFSM2_ENABLE_LOG_INTERFACE
#define FFSM2_ENABLE_PLANS
#define FFSM2_ENABLE_TRANSITION_HISTORY
#include VERIF_FFSM2_HEADER

#include "vh.hpp"

namespace {

struct Ev { int v; };

using M = ffsm2::MachineT<ffsm2::Config::ManualActivation>;
struct Head; struct Bare0; struct OnlyUpdate; struct OnlyLife; struct Bare3;
using FSM = M::Root<Head, Bare0, OnlyUpdate, OnlyLife, Bare3>;

unsigned g_delivered[16][16];   // [state id or 15 for the root][method]: callbacks that really ran

void ran(unsigned sid, ffsm2::Method m) { ++g_delivered[sid][static_cast<unsigned>(m)]; }

struct Head : FSM::State {};                       // defines nothing
struct Bare0 : FSM::State {};
struct OnlyUpdate : FSM::State {
	void update(FullControl& c) { ran(1, ffsm2::Method::UPDATE); if (g_succeed) c.succeed(); }
	static bool g_succeed;
};
bool OnlyUpdate::g_succeed = false;
struct OnlyLife : FSM::State {
	void enter(PlanControl&) { ran(2, ffsm2::Method::ENTER); }
	void exit(PlanControl&) { ran(2, ffsm2::Method::EXIT); }
};
struct Bare3 : FSM::State {};

constexpr uint32_t bit(ffsm2::Method m) { return 1u << static_cast<unsigned>(m); }
// which callbacks each class defines itself
const uint32_t DEFINES[4] = {0, bit(ffsm2::Method::UPDATE), bit(ffsm2::Method::ENTER) | bit(ffsm2::Method::EXIT), 0};
const uint32_t TEMPLATED = bit(ffsm2::Method::PRE_REACT) | bit(ffsm2::Method::REACT) | bit(ffsm2::Method::POST_REACT) | bit(ffsm2::Method::QUERY);

vh::Reporter g_rep;
vh::Stats g_stats;
vh::Args g_args;

const char* mname(ffsm2::Method m) { return ffsm2::methodName(m); }

struct Logger : FSM::Logger {
	using Context = FSM::Logger::Context;
	unsigned records[16][16] = {};
	void recordMethod(const Context&, const ffsm2::StateID origin, const ffsm2::Method method) override {
		const unsigned sid = origin == ffsm2::INVALID_STATE_ID ? 15u : origin;
		++records[sid < 16 ? sid : 14][static_cast<unsigned>(method)];
		g_stats.add("method_records");
		const uint32_t defined = sid == 15 ? 0u : DEFINES[sid & 3];
		if (!((defined | TEMPLATED) & bit(method)))
			g_rep.report("C16", std::string("method-record-for-state-without-callback|") + mname(method),
						 "non-verbose logging recorded (" + std::to_string(unsigned(origin)) + "," + mname(method) + ") although the class of that state does not define the callback");
	}
};

}

int main(int argc, char** argv) {
	g_args = vh::parseArgs(argc, argv);
	vh::Rng rng(g_args.seed * 7919 + 5);
	Logger logger;
	FSM::Instance m(&logger);
	const unsigned steps = g_args.thorough() ? 20000 : 2000;
	for (unsigned i = 0; i < steps; ++i) {
		if (!m.isActive()) { m.enter(); continue; }
		switch (rng.below(12)) {
		case 0: case 1: case 2: m.update(); break;
		case 3: { Ev e{1}; m.react(e); break; }
		case 4: { Ev e{0}; static_cast<const FSM::Instance&>(m).query(e); break; }
		case 5: case 6: m.changeTo(static_cast<ffsm2::StateID>(rng.below(4))); break;
		case 7: m.immediateChangeTo(static_cast<ffsm2::StateID>(rng.below(4))); break;
		case 8: { const ffsm2::StateID o = static_cast<ffsm2::StateID>(rng.below(4)); const ffsm2::StateID d = static_cast<ffsm2::StateID>(rng.below(4)); m.plan().change(o, d); break; }
		case 9: OnlyUpdate::g_succeed = !OnlyUpdate::g_succeed; m.succeed(m.activeStateId()); break;
		case 10: m.fail(m.activeStateId()); break;
		default: if (rng.below(4) == 0) m.exit(); break;
		}
		g_stats.add("operations");
	}
	if (m.isActive()) m.exit();
	// the converse on the callbacks that exist: as many records as deliveries
	for (unsigned sid = 0; sid < 4; ++sid)
		for (unsigned k = 0; k < 16; ++k)
			if ((DEFINES[sid] >> k & 1) && logger.records[sid][k] != g_delivered[sid][k])
				g_rep.report("C16", "records!=deliveries|defined-callback", "state " + std::to_string(sid) + " method " + std::to_string(k) + ": " + std::to_string(g_delivered[sid][k]) + " deliveries, " + std::to_string(logger.records[sid][k]) + " records");
	g_stats.emit();
	printf("@SAMPLE {\"program\":\"lognv\",\"states\":\"bare, only-update, only-enter/exit, bare; bare head\"}\n");
	return 0;
}
