// Link probe (C10): Plan::first()/last() on the mutable plan handle must be usable.
#define FFSM2_ENABLE_PLANS
#include VERIF_FFSM2_HEADER
struct A; struct B;
using FSM = ffsm2::Machine::PeerRoot<A, B>;
struct A : FSM::State {};
struct B : FSM::State {};
int main() {
	FSM::Instance m;
	auto plan = m.plan();
	plan.change<A, B>();
	const auto cplan = static_cast<const FSM::Instance&>(m).plan();
	int r = plan.first().origin + plan.last().destination + cplan.first().origin;
	const auto& constPlan = plan;
	r += constPlan.first().origin + constPlan.last().destination;
	return r == 99 ? 1 : 0;
}
