// E1 fsmmon — compile-time configuration of one monitored machine type.
//   -DCFG_N=3        number of states (1..32)
//   -DCFG_HEAD=1     Root<Rt,...> (1) or PeerRoot<...> (0)
//   -DCFG_MANUAL=0   activation
//   -DCFG_L=4        substitution limit
//   -DCFG_CAP=0      task capacity (0 = library default = N)
//   -DCFG_PAYLOAD=0  0 void | 1 1-byte struct | 2 3-byte | 3 {i32,char[8]} | 4 double | 5 alignas(16) 32 bytes | 6 64 bytes | 7 300 bytes
//   -DCFG_CTX=1      0 empty | 1 value | 2 reference | 3 pointer | 4 one-byte value
//   -DCFG_INJ=0      injections per state (0..3)
//   -DCFG_BARE=0     the last CFG_BARE states define no callbacks at all
//   -DCFG_PARTIAL=0  != 0: every state class defines only a (pseudo-random, per state) subset of the callbacks; needs CFG_INJ=1
//   -DCFG_HEADOUT=3  plan outcome callbacks the root head class defines: bit 0 planSucceeded, bit 1 planFailed (CFG_PARTIAL=0 only)
//   -DCFG_VIRT=0     1: the injections declare their callbacks virtual
//   -DCFG_CONSTCB=0  1: the state classes declare their (non-query) callbacks const
//   -DCFG_ORDER=0    order in which the configuration aliases are applied (0..3)
// plus the library's own FFSM2_ENABLE_* switches on the command line.
#pragma once

#ifndef CFG_N
#define CFG_N 3
#endif
#ifndef CFG_HEAD
#define CFG_HEAD 1
#endif
#ifndef CFG_MANUAL
#define CFG_MANUAL 0
#endif
#ifndef CFG_L
#define CFG_L 4
#endif
#ifndef CFG_CAP
#define CFG_CAP 0
#endif
#ifndef CFG_PAYLOAD
#define CFG_PAYLOAD 0
#endif
#ifndef CFG_CTX
#define CFG_CTX 1
#endif
#ifndef CFG_INJ
#define CFG_INJ 0
#endif
#ifndef CFG_BARE
#define CFG_BARE 0
#endif
#ifndef CFG_PARTIAL
#define CFG_PARTIAL 0
#endif
#ifndef CFG_HEADOUT
#define CFG_HEADOUT 3
#endif
#ifndef CFG_VIRT
#define CFG_VIRT 0
#endif
#ifndef CFG_CONSTCB
#define CFG_CONSTCB 0
#endif

#include VERIF_FFSM2_HEADER

#include <stdint.h>
#include <stdio.h>
#include <string.h>

#include <utility>

#if defined(FFSM2_ENABLE_PLANS)
#define HAS_PLANS 1
#else
#define HAS_PLANS 0
#endif
#if defined(FFSM2_ENABLE_SERIALIZATION)
#define HAS_SERIAL 1
#else
#define HAS_SERIAL 0
#endif
#if defined(FFSM2_ENABLE_TRANSITION_HISTORY)
#define HAS_HISTORY 1
#else
#define HAS_HISTORY 0
#endif
#if defined(FFSM2_ENABLE_LOG_INTERFACE) || defined(FFSM2_ENABLE_VERBOSE_DEBUG_LOG)
#define HAS_LOG 1
#else
#define HAS_LOG 0
#endif
#if defined(FFSM2_ENABLE_VERBOSE_DEBUG_LOG)
#define HAS_VERBOSE 1
#else
#define HAS_VERBOSE 0
#endif
#define HAS_PAYLOAD (CFG_PAYLOAD != 0)

namespace cfg {

constexpr unsigned N = CFG_N;
constexpr unsigned L = CFG_L;
constexpr unsigned K = CFG_INJ;
constexpr bool HEAD = CFG_HEAD != 0;
constexpr bool MANUAL = CFG_MANUAL != 0;
constexpr unsigned BARE = CFG_BARE;
constexpr unsigned ROOT = 255;
static_assert(N >= 1 && N <= 32, "behavioural monitors run on 1..32 states");
static_assert(BARE < N, "at least one observable state");

// ---------------------------------------------------------------------------
// payload kinds: every payload carries a tag that identifies the request it was attached to

#if CFG_PAYLOAD == 0
using Payload = void;
constexpr uint64_t TAGMASK = 0;
#elif CFG_PAYLOAD == 1
// (a bare uint8_t cannot be used: it is the StateID type and makes the library's Transition constructors ambiguous)
struct Payload { uint8_t v; };
constexpr uint64_t TAGMASK = 0xff;
inline Payload makePayload(uint64_t tag) { Payload p; p.v = static_cast<uint8_t>(tag); return p; }
inline uint64_t tagOf(const Payload& p) { return p.v; }
#elif CFG_PAYLOAD == 2
struct Payload { uint8_t b[3]; };
constexpr uint64_t TAGMASK = 0xffffff;
inline Payload makePayload(uint64_t tag) { Payload p; p.b[0] = uint8_t(tag); p.b[1] = uint8_t(tag >> 8); p.b[2] = uint8_t(tag >> 16); return p; }
inline uint64_t tagOf(const Payload& p) { return uint64_t(p.b[0]) | uint64_t(p.b[1]) << 8 | uint64_t(p.b[2]) << 16; }
#elif CFG_PAYLOAD == 3
struct Payload { int32_t a; char c[8]; };
constexpr uint64_t TAGMASK = ~0ull;
inline Payload makePayload(uint64_t tag) { Payload p; p.a = static_cast<int32_t>(tag * 2654435761u); memcpy(p.c, &tag, 8); return p; }
inline uint64_t tagOf(const Payload& p) { uint64_t t; memcpy(&t, p.c, 8); return p.a == static_cast<int32_t>(t * 2654435761u) ? t : ~t; }
#elif CFG_PAYLOAD == 4
using Payload = double;
constexpr uint64_t TAGMASK = (1ull << 52) - 1;
inline Payload makePayload(uint64_t tag) { return static_cast<double>(tag & TAGMASK); }
inline uint64_t tagOf(const Payload& p) { return static_cast<uint64_t>(p); }
#elif CFG_PAYLOAD == 5
struct alignas(16) Payload { uint64_t q[4]; };
constexpr uint64_t TAGMASK = ~0ull;
inline Payload makePayload(uint64_t tag) { Payload p; p.q[0] = tag; p.q[1] = ~tag; p.q[2] = tag * 3; p.q[3] = tag ^ 0x5555555555555555ull; return p; }
inline uint64_t tagOf(const Payload& p) { return (p.q[1] == ~p.q[0] && p.q[2] == p.q[0] * 3 && p.q[3] == (p.q[0] ^ 0x5555555555555555ull)) ? p.q[0] : ~p.q[0]; }
#elif CFG_PAYLOAD == 6
struct Payload { uint64_t q[8]; };
constexpr uint64_t TAGMASK = ~0ull;
inline Payload makePayload(uint64_t tag) { Payload p; for (unsigned i = 0; i < 8; ++i) p.q[i] = tag + i * 0x0101010101010101ull; return p; }
inline uint64_t tagOf(const Payload& p) { for (unsigned i = 1; i < 8; ++i) if (p.q[i] != p.q[0] + i * 0x0101010101010101ull) return ~p.q[0]; return p.q[0]; }
#elif CFG_PAYLOAD == 7
// larger than any 8-bit size: 300 bytes, every byte derived from the tag
struct Payload { uint8_t b[300]; };
constexpr uint64_t TAGMASK = ~0ull;
inline Payload makePayload(uint64_t tag) { Payload p; for (unsigned i = 0; i < 300; ++i) p.b[i] = static_cast<uint8_t>((tag >> (8 * (i & 7))) + i * 31 + (i >> 3)); return p; }
inline uint64_t tagOf(const Payload& p) {
	uint64_t t = 0;
	for (unsigned i = 0; i < 8; ++i) t |= static_cast<uint64_t>(static_cast<uint8_t>(p.b[i] - i * 31 - (i >> 3))) << (8 * i);
	for (unsigned i = 0; i < 300; ++i) if (p.b[i] != static_cast<uint8_t>((t >> (8 * (i & 7))) + i * 31 + (i >> 3))) return ~t;
	return t;
}
#else
#error "unknown CFG_PAYLOAD"
#endif

// ---------------------------------------------------------------------------
// context kinds

struct CtxData {
	uint64_t magic = 0xC0FFEE0DDF00Dull;
	uint32_t slot = 0;
};

#if CFG_CTX == 0
using Context = ffsm2::EmptyContext;
#elif CFG_CTX == 1
using Context = CtxData;
#elif CFG_CTX == 2
using Context = CtxData&;
#elif CFG_CTX == 3
using Context = CtxData*;
#elif CFG_CTX == 4
// the smallest possible value context: with no optional feature the whole machine core is then a few bytes
struct TinyCtx { uint8_t v = 0x5A; };
using Context = TinyCtx;
#else
#error "unknown CFG_CTX"
#endif

// ---------------------------------------------------------------------------
// machine type

// The configuration is assembled from the documented aliases (ContextT, ManualActivation,
// SubstitutionLimitN, TaskCapacityN, PayloadT).  Each alias must carry all the other settings over, so the
// order of application is varied (-DCFG_ORDER=0..3).
#ifndef CFG_ORDER
#define CFG_ORDER 0
#endif

template <typename TCfg> struct WithContext { using Type = typename TCfg::template ContextT<Context>; };
template <typename TCfg> struct WithLimit { using Type = typename TCfg::template SubstitutionLimitN<CFG_L>; };
template <typename TCfg> struct WithManual { using Type = typename ffsm2::Conditional<MANUAL, typename TCfg::ManualActivation, TCfg>; };
#if CFG_PAYLOAD == 0
template <typename TCfg> struct WithPayload { using Type = TCfg; };
#else
template <typename TCfg> struct WithPayload { using Type = typename TCfg::template PayloadT<Payload>; };
#endif
#if HAS_PLANS && CFG_CAP != 0
template <typename TCfg> struct WithCapacity { using Type = typename TCfg::template TaskCapacityN<CFG_CAP>; };
#else
template <typename TCfg> struct WithCapacity { using Type = TCfg; };
#endif

template <template <typename> class... TSteps> struct Apply;
template <> struct Apply<> { template <typename T> using To = T; };
template <template <typename> class TFirst, template <typename> class... TRest>
struct Apply<TFirst, TRest...> { template <typename T> using To = typename Apply<TRest...>::template To<typename TFirst<T>::Type>; };

#if CFG_ORDER == 0
using Config = Apply<WithContext, WithLimit, WithPayload, WithCapacity, WithManual>::To<ffsm2::Config>;
#elif CFG_ORDER == 1
using Config = Apply<WithManual, WithCapacity, WithPayload, WithLimit, WithContext>::To<ffsm2::Config>;
#elif CFG_ORDER == 2
using Config = Apply<WithLimit, WithManual, WithContext, WithCapacity, WithPayload>::To<ffsm2::Config>;
#else
using Config = Apply<WithPayload, WithContext, WithCapacity, WithManual, WithLimit>::To<ffsm2::Config>;
#endif
using M = ffsm2::MachineT<Config>;

template <unsigned I> struct St;   // fully instrumented state
template <unsigned I> struct Br;   // bare state: defines nothing
struct Rt;                          // root head

template <unsigned I>
using StateAt = typename ffsm2::Conditional<(I + BARE >= N), Br<I>, St<I>>;

template <typename> struct MakeFsm;
template <size_t... I>
struct MakeFsm<std::index_sequence<I...>> {
#if CFG_HEAD
	using Type = M::Root<Rt, StateAt<I>...>;
#else
	using Type = M::PeerRoot<StateAt<I>...>;
#endif
};

using FSM = MakeFsm<std::make_index_sequence<N>>::Type;
using Instance = FSM::Instance;

#if HAS_PLANS
// the capacity the configuration ASKS for (not what the library derived from it): TaskCapacityN<CFG_CAP>, default = state count
constexpr unsigned CAP = CFG_CAP != 0 ? CFG_CAP : N;
#else
constexpr unsigned CAP = 0;
#endif

// CFG_PARTIAL: which callbacks the class of state <sid> defines itself (bit = ffsm2::Method value).  With exactly one
// injection per state every delivery stays observable through the injection, whatever the state class omits.
constexpr unsigned PARTIAL = CFG_PARTIAL;
static_assert(PARTIAL == 0 || (K == 1 && BARE == 0), "CFG_PARTIAL needs CFG_INJ=1 and CFG_BARE=0");
constexpr uint32_t scramble(uint32_t x) { return ((x ^ (x >> 15)) * 0x2C1B3C6Du) ^ (((x ^ (x >> 15)) * 0x2C1B3C6Du) >> 12); }
constexpr uint32_t ownMask(unsigned sid) { return PARTIAL == 0 ? ~0u : scramble(scramble(PARTIAL * 0x9E3779B1u + sid * 0x85EBCA6Bu + 0x1234567u)); }
constexpr bool defines(unsigned sid, ffsm2::Method m) {
	return PARTIAL ? (ownMask(sid) >> static_cast<unsigned>(m)) & 1u
		 : (sid == ROOT && m == ffsm2::Method::PLAN_SUCCEEDED) ? (CFG_HEADOUT & 1) != 0
		 : (sid == ROOT && m == ffsm2::Method::PLAN_FAILED) ? (CFG_HEADOUT & 2) != 0
		 : true;
}

inline const char* name() {
	static char buf[256];
	snprintf(buf, sizeof buf, "N%u%s%s-L%u-C%u-P%d-X%d-K%u%s%s%s%s%s%s",
			 N, HEAD ? "h" : "p", MANUAL ? "m" : "a", L, CAP, CFG_PAYLOAD, CFG_CTX, K,
			 CFG_VIRT ? "-virtinj" : CFG_CONSTCB ? "-constcb" : BARE ? "-bare" : (PARTIAL ? "-partial" : (CFG_HEADOUT == 3 ? "" : CFG_HEADOUT == 2 ? "-onlyPlanFailed" : CFG_HEADOUT == 1 ? "-onlyPlanSucceeded" : "-noOutcomeCallbacks")), HAS_PLANS ? "-plans" : "", HAS_SERIAL ? "-ser" : "", HAS_HISTORY ? "-hist" : "",
			 HAS_VERBOSE ? "-vlog" : (HAS_LOG ? "-log" : ""), "");
	return buf;
}

}
