// E1 fsmmon — the instrumented states: every callback of every state, injection and of the
// root records itself, runs the in-callback assertions (C01, C05, C06, C07) and then lets the
// chooser decide what the "user code" does with the control object it was handed.
#pragma once

#include "fsm_track.hpp"

// PlanT::first()/last() are declared but not defined on the pinned tree; the driver falls back to 0
// (and reports that) when the default build does not link
#ifndef VERIF_PLAN_FIRST_LAST
#define VERIF_PLAN_FIRST_LAST 1
#endif

namespace mon {

enum Flv { FLV_CONST, FLV_PLAN, FLV_FULL, FLV_GUARD };

struct UserScope {
	World& w;
	explicit UserScope(World& w_) : w(w_) { ++w.inUser; }
	~UserScope() { --w.inUser; }
};

template <Flv F, typename TC>
void hub(TC& c, Method m, uint8_t sid, uint8_t inj, uint64_t* mem, const void* ev = nullptr);

}

// ===========================================================================
// state types

namespace cfg {

struct Ev1 { uint32_t value; };
struct Ev2 { uint64_t a, b; };   // a second event type: react<TEvent>/query<TEvent> are templates

// PRE: "virtual" or nothing (injections, CFG_VIRT); POST: "const" (CFG_CONSTCB; the event callbacks cannot be const: the
// library casts them to a non-const member pointer) / "noexcept" (CFG_VIRT) / nothing
#define VERIF_CALLBACKS(SID, INJ, PRE, POST, EVPOST)                                                                                              \
	PRE void entryGuard(GuardControl& c) POST { mon::hub<mon::FLV_GUARD>(c, ffsm2::Method::ENTRY_GUARD, SID, INJ, &this->mem); }           \
	PRE void enter(PlanControl& c) POST { mon::hub<mon::FLV_PLAN>(c, ffsm2::Method::ENTER, SID, INJ, &this->mem); }                        \
	PRE void reenter(PlanControl& c) POST { mon::hub<mon::FLV_PLAN>(c, ffsm2::Method::REENTER, SID, INJ, &this->mem); }                    \
	PRE void preUpdate(FullControl& c) POST { mon::hub<mon::FLV_FULL>(c, ffsm2::Method::PRE_UPDATE, SID, INJ, &this->mem); }               \
	PRE void update(FullControl& c) POST { mon::hub<mon::FLV_FULL>(c, ffsm2::Method::UPDATE, SID, INJ, &this->mem); }                      \
	PRE void postUpdate(FullControl& c) POST { mon::hub<mon::FLV_FULL>(c, ffsm2::Method::POST_UPDATE, SID, INJ, &this->mem); }             \
	PRE void preReact(const Ev1& e, FullControl& c) EVPOST { mon::hub<mon::FLV_FULL>(c, ffsm2::Method::PRE_REACT, SID, INJ, &this->mem, &e); } \
	PRE void react(const Ev1& e, FullControl& c) EVPOST { mon::hub<mon::FLV_FULL>(c, ffsm2::Method::REACT, SID, INJ, &this->mem, &e); }      \
	PRE void postReact(const Ev1& e, FullControl& c) EVPOST { mon::hub<mon::FLV_FULL>(c, ffsm2::Method::POST_REACT, SID, INJ, &this->mem, &e); } \
	PRE void query(Ev1& e, ConstControl& c) const VERIF_QUERY_POST { mon::hub<mon::FLV_CONST>(c, ffsm2::Method::QUERY, SID, INJ, &this->mem, &e); }         \
	PRE void preReact(const Ev2& e, FullControl& c) EVPOST { mon::hub<mon::FLV_FULL>(c, ffsm2::Method::PRE_REACT, SID, INJ, &this->mem, &e); } \
	PRE void react(const Ev2& e, FullControl& c) EVPOST { mon::hub<mon::FLV_FULL>(c, ffsm2::Method::REACT, SID, INJ, &this->mem, &e); }      \
	PRE void postReact(const Ev2& e, FullControl& c) EVPOST { mon::hub<mon::FLV_FULL>(c, ffsm2::Method::POST_REACT, SID, INJ, &this->mem, &e); } \
	PRE void query(Ev2& e, ConstControl& c) const VERIF_QUERY_POST { mon::hub<mon::FLV_CONST>(c, ffsm2::Method::QUERY, SID, INJ, &this->mem, &e); }         \
	PRE void exitGuard(GuardControl& c) POST { mon::hub<mon::FLV_GUARD>(c, ffsm2::Method::EXIT_GUARD, SID, INJ, &this->mem); }             \
	PRE void exit(PlanControl& c) POST { mon::hub<mon::FLV_PLAN>(c, ffsm2::Method::EXIT, SID, INJ, &this->mem); }

#if CFG_VIRT
#define VERIF_QUERY_POST noexcept
#else
#define VERIF_QUERY_POST
#endif
#if CFG_VIRT
// (the library's default stubs are noexcept and override a virtual callback of an injection; whatever overrides
// them in turn - the state's own callbacks - must then be noexcept as well)
#define VERIF_INJ_PRE virtual
#define VERIF_INJ_POST noexcept
#define VERIF_OWN_POST noexcept
#elif CFG_CONSTCB
#define VERIF_INJ_PRE
#define VERIF_INJ_POST
#define VERIF_OWN_POST const
#else
#define VERIF_INJ_PRE
#define VERIF_INJ_POST
#define VERIF_OWN_POST
#endif

// injections: plain states that record themselves with their index
template <unsigned SID, unsigned J>
struct Inj : FSM::State {
	VERIF_CALLBACKS(SID, J, VERIF_INJ_PRE, VERIF_INJ_POST, VERIF_INJ_POST)
	mutable uint64_t mem = 0x1000u + SID * 16 + J;
};

template <unsigned SID, typename> struct BaseOf;
template <unsigned SID>
struct BaseOf<SID, std::index_sequence<>> { using Type = FSM::State; };
template <unsigned SID, size_t... J>
struct BaseOf<SID, std::index_sequence<J...>> { using Type = FSM::StateT<Inj<SID, J + 1>...>; };

#if CFG_PARTIAL == 0

template <unsigned I>
struct St : BaseOf<I, std::make_index_sequence<K>>::Type {
	using Base = typename BaseOf<I, std::make_index_sequence<K>>::Type;
	using typename Base::GuardControl;
	using typename Base::PlanControl;
	using typename Base::FullControl;
	using typename Base::ConstControl;
	VERIF_CALLBACKS(I, 0, , VERIF_OWN_POST, VERIF_QUERY_POST)
	mutable uint64_t mem = 0x51A7E000u + I;
};

template <unsigned I>
struct Br : FSM::State {};

struct Rt : BaseOf<ROOT, std::make_index_sequence<K>>::Type {
	using Base = BaseOf<ROOT, std::make_index_sequence<K>>::Type;
	VERIF_CALLBACKS(ROOT, 0, , VERIF_OWN_POST, VERIF_QUERY_POST)
#if HAS_PLANS && (CFG_HEADOUT & 1)
	void planSucceeded(FullControl& c) VERIF_OWN_POST { mon::hub<mon::FLV_FULL>(c, ffsm2::Method::PLAN_SUCCEEDED, ROOT, 0, &this->mem); }
#endif
#if HAS_PLANS && (CFG_HEADOUT & 2)
	void planFailed(FullControl& c) VERIF_OWN_POST { mon::hub<mon::FLV_FULL>(c, ffsm2::Method::PLAN_FAILED, ROOT, 0, &this->mem); }
#endif
	mutable uint64_t mem = 0x51A7E0FFu;
};

#else

// state classes that define only some of the callbacks: one mix-in per callback, chained on top of the library's
// state base according to cfg::ownMask(sid)
template <typename B, unsigned SID>
struct MData : B { mutable uint64_t mem = 0x51A7E000u + SID; };

#define VERIF_MIXIN(NAME, ...)                                                                                                       \
	template <typename B, unsigned SID>                                                                                              \
	struct NAME : B {                                                                                                                \
		using typename B::GuardControl; using typename B::PlanControl; using typename B::FullControl; using typename B::ConstControl; \
		__VA_ARGS__                                                                                                                  \
	};

VERIF_MIXIN(MEntryGuard, void entryGuard(GuardControl& c) { mon::hub<mon::FLV_GUARD>(c, ffsm2::Method::ENTRY_GUARD, SID, 0, &this->mem); })
VERIF_MIXIN(MEnter, void enter(PlanControl& c) { mon::hub<mon::FLV_PLAN>(c, ffsm2::Method::ENTER, SID, 0, &this->mem); })
VERIF_MIXIN(MReenter, void reenter(PlanControl& c) { mon::hub<mon::FLV_PLAN>(c, ffsm2::Method::REENTER, SID, 0, &this->mem); })
VERIF_MIXIN(MPreUpdate, void preUpdate(FullControl& c) { mon::hub<mon::FLV_FULL>(c, ffsm2::Method::PRE_UPDATE, SID, 0, &this->mem); })
VERIF_MIXIN(MUpdate, void update(FullControl& c) { mon::hub<mon::FLV_FULL>(c, ffsm2::Method::UPDATE, SID, 0, &this->mem); })
VERIF_MIXIN(MPostUpdate, void postUpdate(FullControl& c) { mon::hub<mon::FLV_FULL>(c, ffsm2::Method::POST_UPDATE, SID, 0, &this->mem); })
VERIF_MIXIN(MPreReact,
	void preReact(const Ev1& e, FullControl& c) { mon::hub<mon::FLV_FULL>(c, ffsm2::Method::PRE_REACT, SID, 0, &this->mem, &e); }
	void preReact(const Ev2& e, FullControl& c) { mon::hub<mon::FLV_FULL>(c, ffsm2::Method::PRE_REACT, SID, 0, &this->mem, &e); })
VERIF_MIXIN(MReact,
	void react(const Ev1& e, FullControl& c) { mon::hub<mon::FLV_FULL>(c, ffsm2::Method::REACT, SID, 0, &this->mem, &e); }
	void react(const Ev2& e, FullControl& c) { mon::hub<mon::FLV_FULL>(c, ffsm2::Method::REACT, SID, 0, &this->mem, &e); })
VERIF_MIXIN(MPostReact,
	void postReact(const Ev1& e, FullControl& c) { mon::hub<mon::FLV_FULL>(c, ffsm2::Method::POST_REACT, SID, 0, &this->mem, &e); }
	void postReact(const Ev2& e, FullControl& c) { mon::hub<mon::FLV_FULL>(c, ffsm2::Method::POST_REACT, SID, 0, &this->mem, &e); })
VERIF_MIXIN(MQuery,
	void query(Ev1& e, ConstControl& c) const { mon::hub<mon::FLV_CONST>(c, ffsm2::Method::QUERY, SID, 0, &this->mem, &e); }
	void query(Ev2& e, ConstControl& c) const { mon::hub<mon::FLV_CONST>(c, ffsm2::Method::QUERY, SID, 0, &this->mem, &e); })
VERIF_MIXIN(MExitGuard, void exitGuard(GuardControl& c) { mon::hub<mon::FLV_GUARD>(c, ffsm2::Method::EXIT_GUARD, SID, 0, &this->mem); })
VERIF_MIXIN(MExit, void exit(PlanControl& c) { mon::hub<mon::FLV_PLAN>(c, ffsm2::Method::EXIT, SID, 0, &this->mem); })
#if HAS_PLANS
VERIF_MIXIN(MPlanSucceeded, void planSucceeded(FullControl& c) { mon::hub<mon::FLV_FULL>(c, ffsm2::Method::PLAN_SUCCEEDED, SID, 0, &this->mem); })
VERIF_MIXIN(MPlanFailed, void planFailed(FullControl& c) { mon::hub<mon::FLV_FULL>(c, ffsm2::Method::PLAN_FAILED, SID, 0, &this->mem); })
#endif

template <unsigned SID, ffsm2::Method M, template <typename, unsigned> class TMix, typename B>
using Pick = typename ffsm2::Conditional<defines(SID, M), TMix<B, SID>, B>;

template <unsigned SID>
struct Mixed {
	using B0 = MData<typename BaseOf<SID, std::make_index_sequence<K>>::Type, SID>;
	using B1 = Pick<SID, ffsm2::Method::ENTRY_GUARD, MEntryGuard, B0>;
	using B2 = Pick<SID, ffsm2::Method::ENTER, MEnter, B1>;
	using B3 = Pick<SID, ffsm2::Method::REENTER, MReenter, B2>;
	using B4 = Pick<SID, ffsm2::Method::PRE_UPDATE, MPreUpdate, B3>;
	using B5 = Pick<SID, ffsm2::Method::UPDATE, MUpdate, B4>;
	using B6 = Pick<SID, ffsm2::Method::POST_UPDATE, MPostUpdate, B5>;
	using B7 = Pick<SID, ffsm2::Method::PRE_REACT, MPreReact, B6>;
	using B8 = Pick<SID, ffsm2::Method::REACT, MReact, B7>;
	using B9 = Pick<SID, ffsm2::Method::POST_REACT, MPostReact, B8>;
	using B10 = Pick<SID, ffsm2::Method::QUERY, MQuery, B9>;
	using B11 = Pick<SID, ffsm2::Method::EXIT_GUARD, MExitGuard, B10>;
	using B12 = Pick<SID, ffsm2::Method::EXIT, MExit, B11>;
#if HAS_PLANS
	using B13 = Pick<SID, ffsm2::Method::PLAN_SUCCEEDED, MPlanSucceeded, B12>;
	using Type = Pick<SID, ffsm2::Method::PLAN_FAILED, MPlanFailed, B13>;
#else
	using Type = B12;
#endif
};

template <unsigned I>
struct St : Mixed<I>::Type {};

template <unsigned I>
struct Br : FSM::State {};

struct Rt : Mixed<ROOT>::Type {};

#endif

#if HAS_LOG
struct Lg : FSM::Logger {
	using LContext = FSM::Logger::Context;
	unsigned slot = 0;
	mon::Inst& in() const { return mon::W->inst[slot]; }
	void recordMethod(const LContext&, const ffsm2::StateID origin, const ffsm2::Method method) override {
		mon::UserScope us(*mon::W);
		if (mon::W->probe) return;
		mon::W->logMethod(in(), origin, method);
	}
	void recordTransition(const LContext&, const ffsm2::StateID origin, const ffsm2::StateID target) override {
		mon::UserScope us(*mon::W);
		if (mon::W->probe) return;
		mon::W->logTransition(in(), origin, target);
	}
#if HAS_PLANS
	void recordTaskStatus(const LContext&, const ffsm2::StateID origin, const StatusEvent event) override {
		mon::UserScope us(*mon::W);
		if (mon::W->probe) return;
		mon::W->logTaskStatus(in(), origin, event == StatusEvent::SUCCEEDED);
	}
#endif
	void recordCancelledPending(const LContext&, const ffsm2::StateID origin) override {
		mon::UserScope us(*mon::W);
		if (mon::W->probe) return;
		mon::W->logCancelled(in(), origin);
	}
};
#endif

}

// ===========================================================================
// monitors that need the complete machine type

namespace mon {

// ---------------------------------------------------------------------------
// the API exists in two forms - by state id and by state type (changeTo(id) / changeTo<T>() ...); the
// type forms are exercised through this run-time -> compile-time dispatch

template <typename F, size_t... I>
inline void forState(unsigned id, F&& f, std::index_sequence<I...>) {
	const int d[] = {0, (id == I ? (f(std::integral_constant<unsigned, I>{}), 0) : 0)...};
	(void) d;
}
#define FOR_STATE(id, T, stmt) ::mon::forState(id, [&](auto tag_) { using T = cfg::StateAt<decltype(tag_)::value>; stmt; }, std::make_index_sequence<cfg::N>{})

inline bool typeForm() { World& w = *W; return w.ch.mode != Chooser::ENUM && w.ch.draw(2) == 1; }

// ---------------------------------------------------------------------------
// plan read-back through whatever handle the control offers

#if HAS_PLANS
template <typename TPlan>
inline PlanVec readPlan(TPlan&& plan, bool* consistent = nullptr) {
	PlanVec v;
	unsigned guard = 0;
	for (auto it = plan.begin(); it; ++it) {
		v.push_back(toTask(*it));
		if (++guard > 300) break;
	}
	bool ok = static_cast<bool>(plan) == !v.empty();
	if (!v.empty()) {
		constexpr bool isConstHandle = std::is_same<typename std::decay<TPlan>::type, typename cfg::Instance::CPlan>::value;
		if constexpr (isConstHandle || VERIF_PLAN_FIRST_LAST) {
			ok = ok && toTask(plan.first()).same(v.front()) && toTask(plan.last()).same(v.back());
			W->stats.add("plan_first_last_checked");
		}
	}
	if (consistent) *consistent = ok;
	return v;
}
#endif

template <Flv F, typename TC>
inline void readBack(TC& c, Inst& in) {
#if HAS_PLANS
	bool ok = true;
	if constexpr (F == FLV_CONST) {
		// ConstControl::plan() cannot be instantiated on this tree (CPlanT's constructor is private and
		// ConstControlT is not among its friends) - outside the property set, see DESIGN.md section 5
		(void) c; (void) in; (void) ok;
		return;
	} else {
	const TC& cc = c;
	in.actualPlan = readPlan(cc.plan(), &ok);   // const handle (CPlan)
	in.actualPlanKnown = true;
	if (!ok) W->V("C10", "cplan-first-last-bool-inconsistent", fmt("CPlan: first()/last()/bool disagree with iteration %s; %s", planStr(in.actualPlan).c_str(), W->tail().c_str()));
	if (F != FLV_CONST) {
		// the mutable handle must show the same sequence
		if constexpr (F != FLV_CONST) {
			bool ok2 = true;
			const PlanVec v2 = readPlan(c.plan(), &ok2);
			if (!samePlan(v2, in.actualPlan) || !ok2)
				W->V("C10", "plan-and-cplan-disagree", fmt("Plan iteration %s vs CPlan iteration %s; %s", planStr(v2).c_str(), planStr(in.actualPlan).c_str(), W->tail().c_str()));
			// ... and so must a const-qualified mutable handle (its own iterator type)
			bool ok3 = true;
			const auto constHandle = c.plan();
			const PlanVec v3 = readPlan(constHandle, &ok3);
			if (!samePlan(v3, in.actualPlan) || !ok3)
				W->V("C10", "const-plan-handle-and-cplan-disagree", fmt("iteration through a const Plan handle %s vs CPlan iteration %s; %s", planStr(v3).c_str(), planStr(in.actualPlan).c_str(), W->tail().c_str()));
		}
	}
	}
#else
	(void) c; (void) in;
#endif
}

// shadow plan == actual plan at every observation point outside the plan step
inline void comparePlanWithShadow(Inst& in, const char* where) {
#if HAS_PLANS
	if (!in.actualPlanKnown) return;
	if (in.st.planPhase != 0) return;           // inside the plan-step window the library may be changing it
	if (!samePlan(in.actualPlan, in.plan)) {
		if (!cfg::HEAD && in.actualPlan.empty() && (in.anyFailMay() || in.anySuccMay())) {
			// headless machine: an invisible plan outcome cleared it
			in.plan.clear(); in.clearStatuses(true);
			return;
		}
		const std::string msg = fmt("at %s the plan iterates as %s but appended-and-not-removed tasks are %s; %s", where, planStr(in.actualPlan).c_str(), planStr(in.plan).c_str(), W->tail().c_str());
		W->V("C10", fmt("plan!=appended-minus-removed|%s", in.actualPlan.size() < in.plan.size() ? "lost" : in.actualPlan.size() > in.plan.size() ? "extra" : "changed"), msg);
		// the library changed the plan on its own outside the plan step (no edit by the harness in between)
		if (!in.planEditedSinceCompare) W->V("C08", "plan-changed-outside-plan-step", msg);
		// C07: the same tasks, but a task carries another payload than the one it was given (that is what its request will show)
		if (in.actualPlan.size() == in.plan.size()) {
			bool sameShape = true, payloadDiffers = false;
			for (size_t i = 0; i < in.plan.size(); ++i) {
				const Task& a = in.actualPlan[i]; const Task& b = in.plan[i];
				if (a.origin != b.origin || a.dest != b.dest) sameShape = false;
				else if (!a.same(b)) payloadDiffers = true;
			}
			if (sameShape && payloadDiffers) W->V("C07", "plan-task-payload-altered", msg);
		}
		in.plan = in.actualPlan;
	}
	in.planEditedSinceCompare = false;
	W->stats.add("plan_readbacks_compared");
#else
	(void) in; (void) where;
#endif
}

// ---------------------------------------------------------------------------
// in-callback assertions

template <typename TC>
inline const void* ctxAddr(TC& c) {
#if CFG_CTX == 3
	return static_cast<const void*>(c.context());
#else
	return static_cast<const void*>(&c.context());
#endif
}

template <Flv F, typename TC>
inline void checkControl(TC& c, Inst& in, Method m, uint8_t sid, const void* ev) {
	World& w = *W;
	Step& s = in.st;
	w.stats.add("in_callback_assertion_sets");

	// C06: own id
	if (c.stateId() != sid)
		w.V("C06", fmt("stateId-mismatch|%s", mname(m)), fmt("control.stateId()=%u inside %s of %u; %s", c.stateId(), mname(m), sid, w.tail().c_str()));
	// C06: the machine's own context
	const void* const machCtx =
#if CFG_CTX == 3
		static_cast<const void*>(in.obj->context());
#else
		static_cast<const void*>(&in.obj->context());
#endif
	if (ctxAddr(c) != machCtx || (in.ctxExpected && machCtx != in.ctxExpected))
		w.V("C06", fmt("context-identity|%s", mname(m)), fmt("control.context() inside %s of %u is not the machine's context object; %s", mname(m), sid, w.tail().c_str()));
	if (static_cast<const void*>(&c._()) != static_cast<const void*>(&c.context()))
		w.V("C06", "context-accessors-disagree", "control._() and control.context() name different objects");

	// C06 / C01: isActive(i) for every id vs the machine itself, at this very moment
	const StateID machActive = in.obj->activeStateId();
	if (w.saveInCallbackHook && (w.nEvents & 31) == 5) w.saveInCallbackHook(in);
	uint32_t ctlSet = 0, ctlSetT = 0;   // which states the control names as active, asked by id / by type
	for (unsigned i = 0; i < N; ++i) {
		bool t = false;
		FOR_STATE(i, T, t = c.template isActive<T>());
		if (c.isActive(static_cast<StateID>(i))) ctlSet |= 1u << i;
		if (t) ctlSetT |= 1u << i;
	}
	for (unsigned i = 0; i < N; ++i) {
		const bool byCtl = c.isActive(static_cast<StateID>(i));
		const bool byMach = in.obj->isActive(static_cast<StateID>(i));
		bool byCtlT = byCtl, byMachT = byMach;
		unsigned idT = i, idCtlT = i;
		FOR_STATE(i, T, (byCtlT = c.template isActive<T>(), byMachT = in.obj->template isActive<T>(), idT = cfg::FSM::stateId<T>(), idCtlT = TC::template stateId<T>()));
		if (byCtlT != byCtl || byMachT != byMach || idT != i || idCtlT != i) {
			w.V("C06", "type-form-disagrees-with-id-form|isActive/stateId", fmt("inside %s of %u: isActive<T>()/stateId<T>() for the state with id %u give ctl %d/%d mach %d/%d ids %u %u", mname(m), sid, i, int(byCtlT), int(byCtl), int(byMachT), int(byMach), idT, idCtlT));
			break;
		}
		if (byCtl != byMach) {
			w.V("C06", fmt("isActive-disagrees-with-machine|id%s0|%s", i == 0 ? "==" : "!=", F == FLV_CONST ? "const" : F == FLV_PLAN ? "plan" : F == FLV_FULL ? "full" : "guard"),
				fmt("inside %s of %u: control.isActive(%u)=%d, machine.isActive(%u)=%d (machine active state %u); %s", mname(m), sid, i, int(byCtl), i, int(byMach), machActive, w.tail().c_str()));
			break;
		}
		if (byMach != (machActive == i)) { w.V("C01", "machine-isActive-vs-activeStateId", fmt("isActive(%u)=%d but activeStateId()=%u", i, int(byMach), machActive)); break; }
	}
	// C01: what the machine reports is the state whose enter() ran most recently without exit()
	const bool rootLife = sid == ROOT && (m == Method::ENTER || m == Method::EXIT);
	if (!rootLife) {
		const int expect = (m == Method::EXIT && sid != ROOT) ? static_cast<int>(sid) : in.cur;
		const int got = machActive == ffsm2::INVALID_STATE_ID ? -1 : machActive;
		if (got != expect)
			w.V("C01", fmt("activeStateId-vs-enter-exit-pairing|in=%s", mname(m)), fmt("inside %s of %u the machine reports active state %d, but the state entered most recently without exit is %d; %s", mname(m), sid, got, expect, w.tail().c_str()));
#if CFG_MANUAL
		// a manually activated machine says whether it is active at all: false until a state has been entered
		if (got == expect && in.obj->isActive() != (expect >= 0))
			w.V("C01", fmt("machine-isActive()-vs-enter-exit-pairing|in=%s", mname(m)), fmt("inside %s of %u machine.isActive() is %d, the state entered most recently without exit is %d; %s", mname(m), sid, int(in.obj->isActive()), expect, w.tail().c_str()));
#endif
		// ... and user code observing through the control handed to this callback sees exactly that one state, whichever form it asks in
		const uint32_t want = expect >= 0 ? 1u << expect : 0u;
		if (got == expect && (ctlSet != want || ctlSetT != want))
			w.V("C01", fmt("control-isActive-vs-enter-exit-pairing|form=%s|in=%s", ctlSet != want ? "id" : "type", mname(m)),
				fmt("inside %s of %u the control names the active states {mask %x by id, %x by type}, but exactly state %d was entered most recently without exit; %s", mname(m), sid, ctlSet, ctlSetT, expect, w.tail().c_str()));
	}

	{
		const auto& r1 = c.request(); const auto& r2 = c.request();
		if (&r1 != &r2) {
			const std::string msg = fmt("inside %s of %u control.request() hands out a different object on every call: it does not name the machine's record, a pointer taken from request().payload() dangles", mname(m), sid);
			w.V("C06", "accessor-returns-a-temporary|request", msg);
			w.V("C18", "accessor-returns-a-temporary|request", msg);
		} else w.stats.add("accessor_identity_checked");
	}
	// C06: the request waiting to be processed
	{
		const Req r = toReq(c.request());
		if (!r.same(in.latest))
			w.V("C06", fmt("request-view|%s", mname(m)), fmt("inside %s of %u control.request() is %s, the request outstanding is %s; %s", mname(m), sid, r.str().c_str(), in.latest.str().c_str(), w.tail().c_str()));
	}

	if constexpr (F == FLV_GUARD) {
		const Req pend = toReq(c.pendingTransition());
		const Req curr = toReq(c.currentTransition());
		Req expectPending;
		if (s.roundOpen) expectPending = s.rounds.back().pending;
		if (!pend.same(expectPending)) {
			const std::string msg = fmt("inside %s of %u pendingTransition() is %s but the request under evaluation is %s; %s", mname(m), sid, pend.str().c_str(), expectPending.str().c_str(), w.tail().c_str());
			w.V("C06", "pending-transition-view", msg);
			if (pend.valid != expectPending.valid || pend.dest != expectPending.dest || pend.origin != expectPending.origin) { w.V("C02", "guard-round-evaluates-other-than-latest-request", msg); w.V("C03", "pending-transition-not-the-request-evaluated", msg); }
			else w.V("C07", "payload-in-pending-transition", msg);
		}
		if (!curr.same(s.survivor))
			w.V("C06", "current-transition-view-in-guard", fmt("inside %s of %u currentTransition() is %s, the transition accepted so far is %s; %s", mname(m), sid, curr.str().c_str(), s.survivor.str().c_str(), w.tail().c_str()));
		w.stats.add("guard_views_checked");
		w.flags |= F_GUARDVIEW;
	}
	if constexpr (F == FLV_PLAN) {
		// enter / exit / reenter: the applied survivor (empty for load / replay / deactivation)
		const Req curr = toReq(c.currentTransition());
		Req expect;
		if (isProcessingOp(s.op) || isActivationOp(s.op)) expect = s.survivor;
		if (!curr.same(expect)) {
			const std::string msg = fmt("inside %s of %u currentTransition() is %s, the transition being applied is %s; %s", mname(m), sid, curr.str().c_str(), expect.str().c_str(), w.tail().c_str());
			w.V("C06", fmt("current-transition-view|%s", mname(m)), msg);
			if (m != Method::EXIT && curr.valid && expect.valid && curr.dest == expect.dest && curr.origin == expect.origin) w.V("C07", fmt("payload-in-current-transition|%s", mname(m)), msg);
		}
		if (HAS_PAYLOAD && (m == Method::ENTER || m == Method::REENTER) && sid != ROOT) { w.stats.add(curr.hasPay ? "payload_seen_in_enter" : "no_payload_seen_in_enter"); if (curr.hasPay) w.flags |= F_PAYLOAD; }
	}
	if constexpr (F == FLV_FULL) {
		const Req curr = toReq(c.currentTransition());
		if (curr.valid) w.V("C06", fmt("current-transition-view|%s", mname(m)), fmt("inside %s of %u currentTransition() is %s, no transition is being applied; %s", mname(m), sid, curr.str().c_str(), w.tail().c_str()));
	}
#if HAS_HISTORY
	{
		const Req pv = toReq(c.previousTransitions());
		const Req pm = toReq(in.obj->previousTransition());
		if (!pv.same(pm)) {
			const std::string msg = fmt("inside %s of %u control.previousTransitions() is %s, the machine's previousTransition() is %s; %s", mname(m), sid, pv.str().c_str(), pm.str().c_str(), w.tail().c_str());
			w.V("C06", "previous-transition-view", msg);
			w.V("C11", "previous-transition-view-inside-callback", msg);   // the history as the callbacks see it
		}
		// the accessors name the machine's own records: asked twice, the same object answers (a pointer obtained from
		// request().payload() stays good while the request is waiting)
		{
			const auto& p1 = c.previousTransitions(); const auto& p2 = c.previousTransitions();
			if (&p1 != &p2) { w.V("C06", "accessor-returns-a-temporary|previousTransitions", "control.previousTransitions() hands out a different object on every call"); w.V("C18", "accessor-returns-a-temporary|previousTransitions", "control.previousTransitions() returns by value: pointers into it dangle"); }
		}
	}
#endif
	// C05: react hands every callback the caller's own event object
	if (m == Method::PRE_REACT || m == Method::REACT || m == Method::POST_REACT || m == Method::QUERY) {
		if (ev != w.curEvent)
			w.V("C05", fmt("event-object-identity|%s", mname(m)), fmt("%s of %u received an event object at %p, the caller passed %p", mname(m), sid, ev, w.curEvent));
		else w.stats.add("event_identity_checked");
	}
}

// ---------------------------------------------------------------------------
// what the "user code" does

template <typename TC>
inline void doChange(TC& c, Inst& in, uint8_t sid, uint8_t dest, bool withPayload) {
	World& w = *W;
	const StateID before = in.obj->activeStateId();
	const uint64_t subsBefore = w.nEvents;
#if HAS_PAYLOAD
	// now and then the payload handed over is a reference into the machine itself: the payload of the request that is
	// waiting (the very storage changeWith() overwrites) or of the previous transition is forwarded
	const cfg::Payload* alias = nullptr;
	if (withPayload && w.ch.mode != Chooser::ENUM && w.ch.chance(1, 5)) {
		if (c.request().payload()) alias = c.request().payload();
#if HAS_HISTORY
		else if (c.previousTransitions().payload()) alias = c.previousTransitions().payload();
#endif
		if (alias) w.stats.add("payload_arguments_aliasing_machine_storage");
	}
	const uint64_t tag = withPayload ? (alias ? cfg::tagOf(*alias) : ++w.tagCounter) : 0;
#else
	const uint64_t tag = 0;
#endif
	const bool byType = typeForm();
	w.act(in, withPayload ? ACT_CHANGE_WITH : ACT_CHANGE, dest, sid, tag);
	w.ownRequest = true; w.ownLogCount = 0;
#if HAS_PAYLOAD
	if (withPayload) { const cfg::Payload plOwn = cfg::makePayload(tag); const cfg::Payload& pl = alias ? *alias : plOwn; if (byType) FOR_STATE(dest, T, LIB(c.template changeWith<T>(pl))); else LIB(c.changeWith(static_cast<StateID>(dest), pl)); }
	else
#endif
	{ if (byType) FOR_STATE(dest, T, LIB(c.template changeTo<T>())); else LIB(c.changeTo(static_cast<StateID>(dest))); }
	w.ownRequest = false;
	w.noteRequest(in, sid, dest, withPayload, tag);
	const Req r = toReq(c.request());
	if (!r.same(in.latest))
		w.V("C06", fmt("request-made-through-control|origin%s", r.valid && r.origin != sid ? "-wrong" : "-ok"), fmt("state %u called change%s(%u) but control.request() now reads %s, expected %s; %s", sid, withPayload ? "With" : "To", dest, r.str().c_str(), in.latest.str().c_str(), w.tail().c_str()));
	if (in.obj->activeStateId() != before || w.nEvents - subsBefore > 2)
		w.V("C02", "request-took-effect-when-made|callback", fmt("changeTo(%u) from a callback of %u changed the machine at once (active %u -> %u, %llu events); %s", dest, sid, before, in.obj->activeStateId(), (unsigned long long) (w.nEvents - subsBefore), w.tail().c_str()));
	w.expectOwnLog(in, LOG_TRANSITION, sid, dest, "changeTo");
}

template <typename TC>
inline void doCancel(TC& c, Inst& in, uint8_t sid) {
	World& w = *W;
	w.act(in, ACT_CANCEL, 255, sid);
	w.ownCancel = true; w.ownLogCount = 0;
	LIB(c.cancelPendingTransition());
	w.ownCancel = false;
	w.noteCancel(in);
	w.expectOwnLog(in, LOG_CANCELLED, sid, 255, "cancelPendingTransition");
}

#if HAS_PLANS
template <typename TC>
inline void doReport(TC& c, Inst& in, uint8_t sid, bool success, uint8_t target, bool implicitId) {
	World& w = *W;
	w.act(in, success ? ACT_SUCCEED : ACT_FAIL, target, sid);
	w.ownReport = true; w.ownLogCount = 0;
	const bool byType = !implicitId && typeForm();
	if (implicitId) { if (success) LIB(c.succeed()); else LIB(c.fail()); }
	else if (byType) { if (success) FOR_STATE(target, T, LIB(c.template succeed<T>())); else FOR_STATE(target, T, LIB(c.template fail<T>())); }
	else { if (success) LIB(c.succeed(static_cast<StateID>(target))); else LIB(c.fail(static_cast<StateID>(target))); }
	w.ownReport = false;
	w.noteReport(in, success, target, sid, true);
	w.expectOwnLog(in, LOG_TASK_STATUS, target, success ? 1 : 0, success ? "succeed" : "fail");
}

// plan edits; TPlan is the mutable handle
template <typename TPlan>
inline void planAppend(TPlan plan, Inst& in, uint8_t origin, uint8_t dest, bool withPayload, const char* where) {
	World& w = *W;
	Task t; t.origin = origin; t.dest = dest; t.hasPay = withPayload; t.tag = withPayload ? ++w.tagCounter : 0;
	const bool expectOk = in.plan.size() < cfg::CAP;
	w.act(in, expectOk ? ACT_PLAN_APPEND : ACT_PLAN_APPEND_FULL, origin, dest, t.tag);
	bool ok = false;
	const unsigned form = w.ch.mode != Chooser::ENUM ? w.ch.draw(3) : 0;   // 0: (origin, destination)  1: <Origin>(destination)  2: <Origin, Destination>()
#if HAS_PAYLOAD
	if (withPayload) {
		// (now and then the payload is a reference to the payload of a task already in this plan)
		const cfg::Payload* alias = nullptr;
		if (w.ch.mode != Chooser::ENUM && w.ch.chance(1, 5))
			for (auto it = plan.begin(); it; ++it) if (it->payload()) { alias = it->payload(); break; }
		if (alias) { t.tag = cfg::tagOf(*alias); w.stats.add("payload_arguments_aliasing_machine_storage"); }
		const cfg::Payload plOwn = cfg::makePayload(t.tag);
		const cfg::Payload& pl = alias ? *alias : plOwn;
		if (form == 0) LIB(ok = plan.changeWith(static_cast<StateID>(origin), static_cast<StateID>(dest), pl));
		else if (form == 1) FOR_STATE(origin, TO, LIB(ok = plan.template changeWith<TO>(static_cast<StateID>(dest), pl)));
		else FOR_STATE(origin, TO, FOR_STATE(dest, TD, LIB(ok = (plan.template changeWith<TO, TD>(pl)))));
	} else
#endif
	{
		if (form == 0) LIB(ok = plan.change(static_cast<StateID>(origin), static_cast<StateID>(dest)));
		else if (form == 1) FOR_STATE(origin, TO, LIB(ok = plan.template change<TO>(static_cast<StateID>(dest))));
		else FOR_STATE(origin, TO, FOR_STATE(dest, TD, LIB(ok = (plan.template change<TO, TD>()))));
	}
	if (ok != expectOk)
		w.V("C10", fmt("append-result|%s|%s", expectOk ? "refused-with-room" : "accepted-when-full", withPayload ? "changeWith" : "change"),
			fmt("%s: plan holds %zu of %u tasks, append returned %d; %s", where, in.plan.size(), cfg::CAP, int(ok), w.tail().c_str()));
	if (ok) w.notePlanAppend(in, t);
	w.stats.add(expectOk ? "plan_appends" : "plan_appends_at_capacity");
	if (!expectOk) w.flags |= F_PLANFULL;
	bool cons = true;
	const PlanVec now = readPlan(plan, &cons);
	if (!cons) w.V("C10", "plan-first-last-bool-inconsistent", fmt("%s: after append first()/last()/bool disagree with iteration %s", where, planStr(now).c_str()));
	PlanVec expect = in.plan;
	if (ok && !expectOk) expect = now; // already reported
	if (!samePlan(now, expect))
		w.V("C10", fmt("plan-after-append|%s", ok ? "accepted" : "refused"), fmt("%s: after append(%s)=%d the plan iterates as %s, expected %s; %s", where, t.str().c_str(), int(ok), planStr(now).c_str(), planStr(expect).c_str(), w.tail().c_str()));
	// C08: the task that will fire is the one the program described (origin, destination, payload), whichever overload it used
	if (ok && expectOk && now.size() == expect.size() && !now.empty() && !now.back().same(t))
		w.V("C08", fmt("task-stored-differs-from-task-appended|form=%u|%s", form, withPayload ? "changeWith" : "change"),
			fmt("%s: appended %s (overload form %u), the plan holds %s in its place; %s", where, t.str().c_str(), form, now.back().str().c_str(), w.tail().c_str()));
#if HAS_PAYLOAD
	// C07: a payload handed over with an accepted task is the payload of the plan's last task (whatever the list is otherwise)
	if (ok && expectOk && withPayload && (now.empty() || !now.back().hasPay || ((now.back().tag ^ t.tag) & cfg::TAGMASK) != 0))
		w.V("C07", "plan-task-payload-not-stored", fmt("%s: changeWith(%s) was accepted, the plan's last task is %s; %s", where, t.str().c_str(), now.empty() ? "(none)" : now.back().str().c_str(), w.tail().c_str()));
#endif
	in.plan = now;
}

template <typename TPlan>
inline void planRemoveAt(TPlan plan, Inst& in, size_t idx, const char* where) {
	World& w = *W;
	const PlanVec before = in.plan;
	if (idx >= before.size()) return;
	w.act(in, ACT_PLAN_REMOVE, static_cast<uint8_t>(idx), 255);
	// remove through the iterator while iterating; the rest of the iteration must be undisturbed - also when tasks are
	// appended (0..2 of them) before the iterator moves on: the tasks that were there are still visited, in order (whether
	// the new ones are visited too is not specified)
	const unsigned extra = w.ch.mode != Chooser::ENUM ? w.ch.pick({6, 2, 3}) : 0;
	PlanVec seen, appended;
	size_t i = 0;
	for (auto it = plan.begin(); it; ++it, ++i) {
		seen.push_back(toTask(*it));
		if (i == idx) {
			LIB(it.remove());
			for (unsigned k = 0; k < extra && before.size() - 1 + appended.size() < cfg::CAP; ++k) {
				Task t; t.origin = static_cast<uint8_t>(w.ch.draw(N)); t.dest = static_cast<uint8_t>(w.ch.draw(N)); t.hasPay = false; t.tag = 0;
				bool ok = false;
				LIB(ok = plan.change(static_cast<StateID>(t.origin), static_cast<StateID>(t.dest)));
				if (!ok) { w.V("C10", "append-result|refused-with-room|during-iteration", fmt("%s: append after an iterator removal refused with %zu of %u tasks; %s", where, before.size() - 1 + appended.size(), cfg::CAP, w.tail().c_str())); break; }
				appended.push_back(t);
				w.stats.add("plan_appends_during_iteration");
			}
		}
		if (i > 300) break;
	}
	{
		// 'before' must be a prefix of what was visited; anything after it must be the appended tasks, in order
		bool ok = seen.size() >= before.size() && seen.size() <= before.size() + appended.size();
		for (size_t k = 0; ok && k < before.size(); ++k) ok = seen[k].same(before[k]);
		for (size_t k = before.size(); ok && k < seen.size(); ++k) ok = seen[k].same(appended[k - before.size()]);
		if (!ok)
			w.V("C10", "iteration-disturbed-by-iterator-remove", fmt("%s: iterating %s while removing position %zu%s visited %s; %s", where, planStr(before).c_str(), idx, appended.empty() ? "" : " (and appending before moving on)", planStr(seen).c_str(), w.tail().c_str()));
	}
	w.notePlanRemove(in, idx);
	for (const Task& t : appended) w.notePlanAppend(in, t);
	bool cons = true;
	const PlanVec now = readPlan(plan, &cons);
	if (!cons) w.V("C10", "plan-first-last-bool-inconsistent", fmt("%s: after remove first()/last()/bool disagree with iteration %s", where, planStr(now).c_str()));
	if (!samePlan(now, in.plan))
		w.V("C10", "plan-after-iterator-remove", fmt("%s: after removing position %zu of %s the plan iterates as %s, expected %s; %s", where, idx, planStr(before).c_str(), planStr(now).c_str(), planStr(in.plan).c_str(), w.tail().c_str()));
	// C08: tasks that neither fired nor were removed by the program stay in the plan, in their order
	if (!samePlan(now, in.plan) && !samePlan(now, before))
		w.V("C08", "unfired-tasks-left-or-reordered|iterator-remove", fmt("%s: removing position %zu of %s left %s: tasks that did not fire and were not removed are gone or out of order (expected %s); %s", where, idx, planStr(before).c_str(), planStr(now).c_str(), planStr(in.plan).c_str(), w.tail().c_str()));
	in.plan = now;
	w.stats.add("plan_iterator_removes");
	w.flags |= F_PLANEDIT;
}

template <typename TPlan>
inline void planClear(TPlan plan, Inst& in, const char* where) {
	World& w = *W;
	w.act(in, ACT_PLAN_CLEAR);
	LIB(plan.clear());
	w.notePlanClear(in);
	const PlanVec now = readPlan(plan);
	if (!now.empty()) w.V("C10", "plan-not-empty-after-clear", fmt("%s: plan iterates as %s after clear()", where, planStr(now).c_str()));
	w.stats.add("plan_clears");
}

template <typename TC>
inline void doPlanEdit(TC& c, Inst& in, const char* where) {
	World& w = *W;
	// a read-only view obtained BEFORE the edit is a view of the plan, not a snapshot of it: it is looked at again afterwards
	const TC& constControl = c;
	auto viewBefore = constControl.plan();
	struct ViewCheck {
		decltype(viewBefore)& view; Inst& in; const char* where;
		~ViewCheck() {
			bool cons = true;
			const PlanVec v = readPlan(view, &cons);
			if (!samePlan(v, in.plan) || !cons)
				W->V("C10", "read-only-view-obtained-before-an-edit-is-stale", fmt("%s: a CPlan obtained before the edit iterates as %s (first/last/bool consistent: %d), the plan is %s; %s", where, planStr(v).c_str(), int(cons), planStr(in.plan).c_str(), W->tail().c_str()));
			W->stats.add("plan_views_rechecked_after_edit");
		}
	} viewCheck{viewBefore, in, where};
	const uint32_t k = w.ch.pick({6, 2, in.plan.empty() ? 0u : 3u, 1});
	if (k == 0 || k == 1) {
		// bias origins towards the active state and towards 0
		uint8_t origin = static_cast<uint8_t>(w.ch.draw(N));
		if (in.cur >= 0 && w.ch.chance(1, 2)) origin = static_cast<uint8_t>(in.cur);
		const uint8_t dest = w.ch.chance(1, 6) ? origin : static_cast<uint8_t>(w.ch.draw(N));
		planAppend(c.plan(), in, origin, dest, HAS_PAYLOAD && k == 1, where);
	} else if (k == 2) planRemoveAt(c.plan(), in, w.ch.draw(static_cast<uint32_t>(in.plan.size())), where);
	else planClear(c.plan(), in, where);
}
#endif

template <Flv F, typename TC>
inline void userCode(TC& c, Inst& in, Method m, uint8_t sid) {
	World& w = *W;
	(void) m;
	if constexpr (F == FLV_CONST) { (void) c; return; }
	else {
		if (in.policy == POL_PASSIVE) return;
		if (in.policy == POL_VETO) { if constexpr (F == FLV_GUARD) doCancel(c, in, sid); return; }
		if (in.policy == POL_HOSTILE) {
			// a replica / loader: its guards must never be consulted; if they are, they derail everything
			if constexpr (F == FLV_GUARD) { doCancel(c, in, sid); doChange(c, in, sid, static_cast<uint8_t>(sid == ROOT ? 0 : (sid + 1) % N), false); }
			return;
		}
		const Profile& p = w.prof;
		if constexpr (F == FLV_GUARD) {
			if (p.guardsOnly) {
				// bounded-exhaustive mode: every guard callback picks from the complete decision alphabet
				const uint32_t d = w.ch.draw(2 + 2 * N);
				if (d == 0) return;
				if (d == 1) { doCancel(c, in, sid); return; }
				if (d < 2 + N) { doChange(c, in, sid, static_cast<uint8_t>(d - 2), false); return; }
				doCancel(c, in, sid); doChange(c, in, sid, static_cast<uint8_t>(d - 2 - N), false);
				return;
			}
			if (p.pingPong) {
				// relentless: always on to the next state, so that no request repeats the one under evaluation (an
				// identical request is absorbed and would end the chain before the substitution limit does)
				if (m == Method::ENTRY_GUARD || p.relentless || w.ch.chance(1, 3)) doChange(c, in, sid, static_cast<uint8_t>(sid == ROOT ? w.ch.draw(N) : (sid + 1 + (p.relentless ? 0 : w.ch.draw(2))) % N), HAS_PAYLOAD && w.ch.chance(1, 3));
				if (!p.relentless && w.ch.chance(1, 5)) doCancel(c, in, sid);   // (a vetoed round whose redirect repeats the request under evaluation ends the chain)
				return;
			}
			if (!w.ch.chance(p.guardActs, 100)) return;
			const unsigned n = 1 + (w.ch.chance(1, 5) ? 1 : 0);
			for (unsigned i = 0; i < n; ++i) {
				const uint32_t k = w.ch.pick({p.wCancel, p.wRedirect, p.wCancelRedirect, HAS_PLANS ? p.wReport : 0u, HAS_PLANS ? p.wPlan : 0u});
				const uint8_t d = static_cast<uint8_t>(w.ch.draw(N));
				switch (k) {
				case 0: doCancel(c, in, sid); break;
				case 1: doChange(c, in, sid, d, HAS_PAYLOAD && w.ch.chance(1, 2)); break;
				case 2: doCancel(c, in, sid); doChange(c, in, sid, d, HAS_PAYLOAD && w.ch.chance(1, 2)); break;
#if HAS_PLANS
				case 3: doReport(c, in, sid, w.ch.chance(2, 3), d, false); break;
				case 4: doPlanEdit(c, in, "guard callback"); break;
#endif
				default: break;
				}
			}
		} else if constexpr (F == FLV_FULL) {
			if (p.guardsOnly) return;
			if (!w.ch.chance(p.cbActs, 100)) return;
			const unsigned n = 1 + (w.ch.chance(1, 4) ? 1 : 0);
			for (unsigned i = 0; i < n; ++i) {
				const uint32_t k = w.ch.pick({p.wChange, HAS_PLANS ? p.wReport * 2 : 0u, HAS_PLANS ? p.wPlan : 0u});
				if (k == 0) doChange(c, in, sid, static_cast<uint8_t>(w.ch.draw(N)), HAS_PAYLOAD && w.ch.chance(1, 2));
#if HAS_PLANS
				else if (k == 1) {
					const bool success = w.ch.chance(3, 4);
					// mostly about the calling state itself (root callbacks must name a state explicitly)
					if (sid != ROOT && w.ch.chance(3, 4)) doReport(c, in, sid, success, sid, w.ch.chance(1, 2));
					else doReport(c, in, sid, success, static_cast<uint8_t>(w.ch.draw(N)), false);
				} else doPlanEdit(c, in, "phase callback");
#endif
			}
		} else {
#if HAS_PLANS
			if (p.guardsOnly) return;
			if (!w.ch.chance(p.lifeActs, 100)) return;
			doPlanEdit(c, in, "enter/exit callback");
#endif
		}
	}
}

// ---------------------------------------------------------------------------
// the hub every callback goes through

template <unsigned I> inline const uint64_t* memAddrOf(const cfg::Br<I>&) { return nullptr; }
template <unsigned I> inline const uint64_t* memAddrOf(const cfg::St<I>& st) { return &st.mem; }
#if CFG_HEAD
inline const uint64_t* rootMemAddr(const cfg::Instance& m) { return &m.template access<cfg::Rt>().mem; }
#else
inline const uint64_t* rootMemAddr(const cfg::Instance&) { return nullptr; }
#endif

template <Flv F, typename TC>
inline void hub(TC& c, Method m, uint8_t sid, uint8_t inj, uint64_t* mem, const void* ev) {
	World& w = *W;
	UserScope us(w);
	// C14: the callback runs on the very object access<TState>() returns (the data member handed in lives in it)
	if (mem && !w.probe && !w.inSnapshotCopy && w.cur && w.cur->obj && inj == 0 && !cfg::BARE) {
		const uint64_t* expected = nullptr;
		if (sid == ROOT) { if (cfg::HEAD) expected = rootMemAddr(*w.cur->obj); }
		else if (sid < N) FOR_STATE(sid, T, expected = memAddrOf(w.cur->obj->template access<T>()));
		if (expected && expected != mem)
			w.V("C14", fmt("callback-ran-on-another-object-than-access<T>()|%s", mname(m)), fmt("%s of %s ran on an object at %p, access<T>() names the object at %p; %s", mname(m), sid == ROOT ? "the root head" : fmt("state %u", sid).c_str(), static_cast<const void*>(mem), static_cast<const void*>(expected), w.tail().c_str()));
		else if (expected) w.stats.add("callback_object_identity_checked");
	}
	// data kept in the state object itself: a running digest of the callbacks it received (C17: copies carry it along)
	if (mem && !w.probe) *mem = vh::mix(*mem, (static_cast<uint64_t>(m) << 8) | inj);
	if (w.inSnapshotCopy) {
		w.V("C17", "copy-construction-ran-callbacks|taken-inside-callback", fmt("copy construction (from inside a callback) delivered %s of %u", mname(m), sid));
		return;
	}
	if (w.probe) {
		// silent query used by the observer to read the outstanding request
		if (m != Method::QUERY) w.V("C05", "non-query-callback-during-query", fmt("%s of %u delivered by query()", mname(m), sid));
		w.probeRequest = toReq(c.request());
		w.probeSeen = true;
		return;
	}
	Inst* in = w.cur;
	if (!in) {
		w.V("C02", fmt("callback-outside-api-call|%s", mname(m)), fmt("%s of %u delivered while no API call is in progress", mname(m), sid));
		return;
	}
	readBack<F>(c, *in);
	if constexpr (F == FLV_GUARD) { w.obsPending = toReq(c.pendingTransition()); w.obsPendingKnown = true; }
	w.sub(*in, m, sid, inj);
	w.obsPendingKnown = false;
	comparePlanWithShadow(*in, "a callback");
	checkControl<F>(c, *in, m, sid, ev);
	if (w.stopCase) return;
	userCode<F>(c, *in, m, sid);
#if HAS_LOG
	if (w.logToggleInCallbacks && w.attachHook && in->slot == 0 && in->policy == POL_CHOOSER && !w.inSnapshotCopy && w.aux.chance(1, 40)) {
		w.attachHook(*in, !in->loggerAttached);
		w.stats.add("logger_toggled_inside_callbacks");
	}
#endif
	// (the draw is made for every chooser-driven instance so that a copy run in lock-step consumes the same decisions)
	if (in->policy == POL_CHOOSER && w.ch.mode != Chooser::ENUM && in->st.op != OP_DTOR && w.ch.chance(1, 89)
		&& in->slot == 0 && w.snapshotHook && !w.snapPending)
		w.snapshotHook(*in, m);
}

}
