// Common plumbing for the /verif monitors: PRNG, violation / statistics output.
// Protocol (parsed by vlib/common.py): stdout lines
//   @VIOL {"prop":..,"key":..,"msg":..,"replay":..}
//   @STAT {...}        counters, merged by summation
//   @SAMPLE {...}      a written-out case
#pragma once

#include <stdint.h>
#include <stdio.h>
#include <stdlib.h>
#include <string.h>

#include <map>
#include <set>
#include <string>
#include <unordered_set>
#include <vector>

namespace vh {

struct Rng {
	uint64_t s[4];

	static uint64_t splitmix(uint64_t& x) {
		uint64_t z = (x += 0x9E3779B97F4A7C15ull);
		z = (z ^ (z >> 30)) * 0xBF58476D1CE4E5B9ull;
		z = (z ^ (z >> 27)) * 0x94D049BB133111EBull;
		return z ^ (z >> 31);
	}

	explicit Rng(uint64_t seed = 1) { reseed(seed); }

	void reseed(uint64_t seed) {
		uint64_t x = seed;
		for (auto& v : s) v = splitmix(x);
	}

	static uint64_t rotl(uint64_t x, int k) { return (x << k) | (x >> (64 - k)); }

	uint64_t next() {
		const uint64_t r = rotl(s[1] * 5, 7) * 9;
		const uint64_t t = s[1] << 17;
		s[2] ^= s[0]; s[3] ^= s[1]; s[1] ^= s[2]; s[0] ^= s[3];
		s[2] ^= t; s[3] = rotl(s[3], 45);
		return r;
	}

	// uniform in [0, n)
	uint32_t below(uint32_t n) { return n ? static_cast<uint32_t>(next() % n) : 0; }
	bool chance(uint32_t num, uint32_t den) { return below(den) < num; }
};

inline uint64_t mix(uint64_t h, uint64_t v) {
	h ^= v + 0x9E3779B97F4A7C15ull + (h << 6) + (h >> 2);
	h *= 0xff51afd7ed558ccdull;
	h ^= h >> 32;
	return h;
}

inline std::string jesc(const std::string& s) {
	std::string o;
	for (unsigned char c : s) {
		if (c == '"' || c == '\\') { o += '\\'; o += static_cast<char>(c); }
		else if (c == '\n') o += "\\n";
		else if (c < 0x20) { char b[8]; snprintf(b, sizeof b, "\\u%04x", c); o += b; }
		else o += static_cast<char>(c);
	}
	return o;
}

struct Args {
	std::string tier = "quick";
	uint64_t seed = 1;
	std::string prop = "";
	std::string out = ".";
	std::string replay = "";
	std::map<std::string, std::string> kv;

	long num(const char* k, long dflt) const {
		auto it = kv.find(k);
		return it == kv.end() ? dflt : atol(it->second.c_str());
	}
	std::string str(const char* k, const char* dflt) const {
		auto it = kv.find(k);
		return it == kv.end() ? std::string(dflt) : it->second;
	}
	bool thorough() const { return tier == "thorough"; }
};

inline Args parseArgs(int argc, char** argv) {
	Args a;
	for (int i = 1; i < argc; ++i) {
		std::string k = argv[i];
		if (k.rfind("--", 0) != 0) continue;
		k = k.substr(2);
		std::string v = (i + 1 < argc && strncmp(argv[i + 1], "--", 2) != 0) ? argv[++i] : "1";
		a.kv[k] = v;
		if (k == "tier") a.tier = v;
		else if (k == "seed") a.seed = strtoull(v.c_str(), nullptr, 10);
		else if (k == "prop") a.prop = v;
		else if (k == "out") a.out = v;
		else if (k == "replay") a.replay = v;
	}
	return a;
}

// ---------------------------------------------------------------------------
// violations: de-duplicated by (prop,key); the first witness of each key is kept

struct Reporter {
	std::set<std::string> seen;
	unsigned total = 0;
	unsigned limitPerKey = 1;

	// returns true if this is the first report for the key (caller may then write a replay file)
	bool report(const char* prop, const std::string& key, const std::string& msg, const std::string& replay = "") {
		++total;
		const std::string k = std::string(prop) + "|" + key;
		if (!seen.insert(k).second) return false;
		printf("@VIOL {\"prop\":\"%s\",\"key\":\"%s\",\"msg\":\"%s\",\"replay\":\"%s\"}\n",
			   prop, jesc(key).c_str(), jesc(msg).c_str(), jesc(replay).c_str());
		fflush(stdout);
		return true;
	}
};

struct Stats {
	std::map<std::string, uint64_t> n;
	std::map<std::string, std::map<std::string, uint64_t>> groups;

	void add(const std::string& k, uint64_t v = 1) { n[k] += v; }
	void add2(const std::string& g, const std::string& k, uint64_t v = 1) { groups[g][k] += v; }

	void emit() const {
		std::string o = "{";
		bool first = true;
		for (auto& kv : n) {
			if (!first) o += ",";
			first = false;
			o += "\"" + jesc(kv.first) + "\":" + std::to_string(kv.second);
		}
		for (auto& g : groups) {
			if (!first) o += ",";
			first = false;
			o += "\"" + jesc(g.first) + "\":{";
			bool f2 = true;
			for (auto& kv : g.second) {
				if (!f2) o += ",";
				f2 = false;
				o += "\"" + jesc(kv.first) + "\":" + std::to_string(kv.second);
			}
			o += "}";
		}
		o += "}";
		printf("@STAT %s\n", o.c_str());
		fflush(stdout);
	}
};

inline void emitSample(const std::string& json) {
	printf("@SAMPLE %s\n", json.c_str());
	fflush(stdout);
}

// distinct non-trivial signatures are written to a side file (raw uint64s) so that the driver
// can take the exact union across processes
inline void writeSigs(const std::string& path, const std::unordered_set<uint64_t>& sigs) {
	if (path.empty()) return;
	FILE* f = fopen(path.c_str(), "wb");
	if (!f) return;
	for (auto v : sigs) fwrite(&v, sizeof v, 1, f);
	fclose(f);
}


}

// ---------------------------------------------------------------------------
// handler of the repository's FFSM2_VERIF hook (builds with -DFFSM2_VERIF only): the library reports an index that
// lies outside one of its fixed-size containers - an access inside the enclosing object, which no red-zone tool sees
#ifdef FFSM2_VERIF
extern "C" void ffsm2VerifOutOfBounds(const char* where, unsigned long index, unsigned long bound) noexcept {
	static vh::Reporter rep;
	static unsigned long total = 0;
	++total;
	char key[160], msg[256];
	snprintf(key, sizeof key, "index-outside-container|%s|bound=%lu", where, bound);
	snprintf(msg, sizeof msg, "%s was handed index %lu, the container holds %lu elements (report #%lu of this process)", where, index, bound, total);
	rep.report("C18", key, msg);
}
#endif
