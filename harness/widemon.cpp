// E3 widemon: one machine size per translation unit (-DWIDE_N=1..255, -DWIDE_HEAD=0|1).
//   C14: stateId<T>() == declaration position for every state, first state is initial, root head has
//        the invalid id, changeTo(k) reaches exactly the k-th state for every callback kind, and
//        access<T>() is the object whose callbacks run.
//   C12: every (saver activity, loader activity) pair, incl. inactive (manual activation), canonical buffers.

#define FFSM2_ENABLE_SERIALIZATION
#define FFSM2_ENABLE_TRANSITION_HISTORY
#include VERIF_FFSM2_HEADER

#include "vh.hpp"

#include <utility>

#ifndef WIDE_N
#define WIDE_N 5
#endif
#ifndef WIDE_HEAD
#define WIDE_HEAD 0
#endif
#ifndef WIDE_AUTO
#define WIDE_AUTO 0      // 1: automatic activation (the serialization passes only; there is no inactive machine then)
#endif

namespace {

constexpr unsigned N = WIDE_N;
constexpr unsigned ROOT = 255;

enum Kind : uint8_t { ENTRY_GUARD, ENTER, REENTER, PRE_UPDATE, UPDATE, POST_UPDATE, PRE_REACT, REACT, POST_REACT, QUERY, EXIT_GUARD, EXIT, KINDS };
const char* kname[] = {"entryGuard", "enter", "reenter", "preUpdate", "update", "postUpdate", "preReact", "react", "postReact", "query", "exitGuard", "exit"};

struct Rec { uint8_t kind, sid; const void* self; uint8_t ctlId; };
Rec g_log[64];
unsigned g_n = 0;
bool g_vetoAll = false;     // loader mode: guards cancel everything (they must not be consulted)
void rec(uint8_t kind, uint8_t sid, const void* self, uint8_t ctlId) { if (g_n < 64) g_log[g_n] = Rec{kind, sid, self, ctlId}; ++g_n; }

struct Ev { int v; };

#if WIDE_AUTO
using M = ffsm2::MachineT<ffsm2::Config>;
#else
using M = ffsm2::MachineT<ffsm2::Config::ManualActivation>;
#endif
template <unsigned I> struct W;
struct H;

template <typename> struct Make;
template <size_t... I>
struct Make<std::index_sequence<I...>> {
#if WIDE_HEAD
	using Type = M::Root<H, W<I>...>;
#else
	using Type = M::PeerRoot<W<I>...>;
#endif
};
using FSM = Make<std::make_index_sequence<N>>::Type;

#define WIDE_CALLBACKS(SID)                                                                                        \
	void entryGuard(GuardControl& c) { rec(ENTRY_GUARD, SID, this, c.stateId()); if (g_vetoAll) c.cancelPendingTransition(); } \
	void enter(PlanControl& c) { rec(ENTER, SID, this, c.stateId()); }                                               \
	void reenter(PlanControl& c) { rec(REENTER, SID, this, c.stateId()); }                                           \
	void preUpdate(FullControl& c) { rec(PRE_UPDATE, SID, this, c.stateId()); }                                      \
	void update(FullControl& c) { rec(UPDATE, SID, this, c.stateId()); }                                             \
	void postUpdate(FullControl& c) { rec(POST_UPDATE, SID, this, c.stateId()); }                                    \
	void preReact(const Ev&, FullControl& c) { rec(PRE_REACT, SID, this, c.stateId()); }                             \
	void react(const Ev&, FullControl& c) { rec(REACT, SID, this, c.stateId()); }                                    \
	void postReact(const Ev&, FullControl& c) { rec(POST_REACT, SID, this, c.stateId()); }                           \
	void query(Ev&, ConstControl& c) const { rec(QUERY, SID, this, c.stateId()); }                                   \
	void exitGuard(GuardControl& c) { rec(EXIT_GUARD, SID, this, c.stateId()); if (g_vetoAll) c.cancelPendingTransition(); } \
	void exit(PlanControl& c) { rec(EXIT, SID, this, c.stateId()); }

template <unsigned I>
struct W : FSM::State {
	WIDE_CALLBACKS(I)
	uint8_t tagByte = static_cast<uint8_t>(I);
};
struct H : FSM::State {
	WIDE_CALLBACKS(ROOT)
};

using Instance = FSM::Instance;

// compile-time part of C14
template <size_t... I>
constexpr bool idsFollowDeclarationOrder(std::index_sequence<I...>) {
	return ((FSM::stateId<W<I>>() == I) && ...) && ((Instance::stateId<W<I>>() == I) && ...);
}
static_assert(idsFollowDeclarationOrder(std::make_index_sequence<N>{}), "stateId<T>() must be the declaration position");
#if WIDE_HEAD
static_assert(FSM::stateId<H>() == ffsm2::INVALID_STATE_ID, "the root head has the invalid id");
#endif

template <unsigned I>
const void* accessPtr(Instance& m) { return &m.access<W<I>>(); }
// ... and the const overload names the same object (bound to a reference first: a by-value return would compile, too)
template <unsigned I>
const void* constAccessPtr(const Instance& m) { const W<I>& r = m.access<W<I>>(); return &r; }
template <unsigned I>
bool isActiveT(const Instance& m) { return m.isActive<W<I>>(); }
template <unsigned I>
unsigned idOf() { return FSM::stateId<W<I>>(); }

using AccFn = const void* (*)(Instance&);
using CAccFn = const void* (*)(const Instance&);
template <size_t... I> std::vector<CAccFn> caccTable(std::index_sequence<I...>) { return {&constAccessPtr<I>...}; }
using ActFn = bool (*)(const Instance&);
using IdFn = unsigned (*)();
template <size_t... I> std::vector<AccFn> accTable(std::index_sequence<I...>) { return {&accessPtr<I>...}; }
template <size_t... I> std::vector<ActFn> actTable(std::index_sequence<I...>) { return {&isActiveT<I>...}; }
template <size_t... I> std::vector<IdFn> idTable(std::index_sequence<I...>) { return {&idOf<I>...}; }

vh::Reporter g_rep;
vh::Stats g_stats;
vh::Args g_args;
std::unordered_set<uint64_t> g_sigs;

std::string logStr() {
	std::string s;
	for (unsigned i = 0; i < g_n && i < 64; ++i) { s += (g_log[i].sid == ROOT ? std::string("R") : std::to_string(g_log[i].sid)) + "." + kname[g_log[i].kind] + " "; }
	return s;
}

void viol(const char* prop, const std::string& key, const std::string& msg) {
	if (!g_args.prop.empty() && g_args.prop != "ALL" && g_args.prop != prop) return;
	char head[96];
	snprintf(head, sizeof head, "[N=%u %s] ", N, WIDE_HEAD ? "Root<H,...>" : "PeerRoot<...>");
	g_rep.report(prop, key, head + msg);
}

struct Expect { uint8_t kind, sid; };

bool matchLog(const std::vector<Expect>& e) {
	if (g_n != e.size()) return false;
	for (size_t i = 0; i < e.size(); ++i) if (g_log[i].kind != e[i].kind || g_log[i].sid != e[i].sid) return false;
	return true;
}

std::string expStr(const std::vector<Expect>& e) {
	std::string s;
	for (auto& x : e) s += (x.sid == ROOT ? std::string("R") : std::to_string(x.sid)) + "." + kname[x.kind] + " ";
	return s;
}

const std::vector<AccFn> ACC = accTable(std::make_index_sequence<N>{});
const std::vector<CAccFn> CACC = caccTable(std::make_index_sequence<N>{});
const std::vector<ActFn> ACT = actTable(std::make_index_sequence<N>{});
const std::vector<IdFn> IDS = idTable(std::make_index_sequence<N>{});

// every recorded callback must have run on the object access<T>() returns, with the control naming that state
void checkIdentity(Instance& m, const char* where) {
	for (unsigned i = 0; i < g_n && i < 64; ++i) {
		const Rec& r = g_log[i];
		if (r.ctlId != r.sid)
			viol("C14", std::string("control-stateId-differs-from-dispatched-state|") + kname[r.kind], std::string(where) + ": callback of state " + std::to_string(r.sid) + " saw control.stateId()=" + std::to_string(r.ctlId));
		if (r.sid == ROOT) {
#if WIDE_HEAD
			if (r.self != &m.access<H>()) viol("C14", "access-identity|root", std::string(where) + ": root callback ran on another object than access<H>()");
#endif
			continue;
		}
		if (r.sid >= N) { viol("C14", "callback-of-unknown-state", std::string(where) + ": " + logStr()); continue; }
		if (CACC[r.sid](m) != ACC[r.sid](m))
			viol("C14", "access-identity|const-overload", std::string(where) + ": access<W<" + std::to_string(r.sid) + ">>() on a const machine is another object than on the mutable one");
		if (r.self != ACC[r.sid](m))
			viol("C14", std::string("access-identity|") + kname[r.kind], std::string(where) + ": " + kname[r.kind] + " of state " + std::to_string(r.sid) + " ran on an object that is not access<W<" + std::to_string(r.sid) + ">>()");
		g_stats.add("identity_checks");
	}
}

void checkActive(Instance& m, int k, const char* where) {
	const unsigned a = m.activeStateId();
	if ((k < 0 && a != ffsm2::INVALID_STATE_ID) || (k >= 0 && a != static_cast<unsigned>(k)))
		viol("C14", "activeStateId-after-transition", std::string(where) + ": activeStateId()=" + std::to_string(a) + ", expected " + std::to_string(k));
	for (unsigned j = 0; j < N; ++j) {
		const bool e = static_cast<int>(j) == k;
		if (m.isActive(static_cast<ffsm2::StateID>(j)) != e || ACT[j](m) != e) {
			viol("C14", "isActive-after-transition", std::string(where) + ": isActive(" + std::to_string(j) + ") wrong while state " + std::to_string(k) + " is active");
			break;
		}
	}
}

void expectLog(Instance& m, const std::vector<Expect>& e, const char* prop, const std::string& key, const std::string& where) {
	if (!matchLog(e)) viol(prop, key, where + ": callbacks ran [" + logStr() + "], expected [" + expStr(e) + "]");
	checkIdentity(m, where.c_str());
}

void dispatchSweep(Instance& m, const std::vector<unsigned>& order) {
	for (unsigned k : order) {
		const unsigned before = m.activeStateId();
		const std::string w = "changeTo(" + std::to_string(k) + ") from " + std::to_string(before);
		g_n = 0;
		m.changeTo(static_cast<ffsm2::StateID>(k));
		if (g_n) viol("C14", "callbacks-at-request-time", w + ": " + logStr());
		g_n = 0;
		m.update();
		std::vector<Expect> e;
		const uint8_t B = static_cast<uint8_t>(before), K = static_cast<uint8_t>(k);
		if (WIDE_HEAD) e.push_back({PRE_UPDATE, ROOT});
		e.push_back({PRE_UPDATE, B});
		if (WIDE_HEAD) e.push_back({UPDATE, ROOT});
		e.push_back({UPDATE, B});
		e.push_back({POST_UPDATE, B});
		if (WIDE_HEAD) e.push_back({POST_UPDATE, ROOT});
		e.push_back({EXIT_GUARD, B});
		e.push_back({ENTRY_GUARD, K});
		if (k != before) { e.push_back({EXIT, B}); e.push_back({ENTER, K}); }
		else e.push_back({REENTER, K});
		expectLog(m, e, "C14", k != before ? "dispatch-update-transition" : "dispatch-update-reenter", w + " + update()");
		checkActive(m, static_cast<int>(k), w.c_str());
		// react / query reach only the k-th state (and the root)
		g_n = 0;
		Ev ev{1};
		m.react(ev);
		e.clear();
		if (WIDE_HEAD) e.push_back({PRE_REACT, ROOT});
		e.push_back({PRE_REACT, K});
		if (WIDE_HEAD) e.push_back({REACT, ROOT});
		e.push_back({REACT, K});
		e.push_back({POST_REACT, K});
		if (WIDE_HEAD) e.push_back({POST_REACT, ROOT});
		expectLog(m, e, "C14", "dispatch-react", "react() in state " + std::to_string(k));
		g_n = 0;
		static_cast<const Instance&>(m).query(ev);
		e.clear();
		if (WIDE_HEAD) e.push_back({QUERY, ROOT});
		e.push_back({QUERY, K});
		expectLog(m, e, "C14", "dispatch-query", "query() in state " + std::to_string(k));
		// immediate self transition and replay reach the same state
		g_n = 0;
		m.immediateChangeTo(static_cast<ffsm2::StateID>(k));
		e.clear();
		e.push_back({EXIT_GUARD, K}); e.push_back({ENTRY_GUARD, K}); e.push_back({REENTER, K});
		expectLog(m, e, "C14", "dispatch-immediate-reenter", "immediateChangeTo(" + std::to_string(k) + ") in state " + std::to_string(k));
		if (IDS[k]() != k) viol("C14", "stateId-order", "stateId<W<" + std::to_string(k) + ">>() = " + std::to_string(IDS[k]()));
		g_stats.add("dispatch_checks");
		g_sigs.insert(vh::mix(vh::mix(N, WIDE_HEAD), vh::mix(before, k)));
	}
}

#if !WIDE_AUTO
void runC14() {
	Instance m;
	g_n = 0;
	m.enter();
	std::vector<Expect> e;
	if (WIDE_HEAD) e.push_back({ENTRY_GUARD, ROOT});
	e.push_back({ENTRY_GUARD, 0});
	if (WIDE_HEAD) e.push_back({ENTER, ROOT});
	e.push_back({ENTER, 0});
	expectLog(m, e, "C14", "initial-state", "enter()");
	checkActive(m, 0, "enter()");
	std::vector<unsigned> asc, perm;
	for (unsigned k = 0; k < N; ++k) asc.push_back(k);
	dispatchSweep(m, asc);
	vh::Rng rng(g_args.seed * 131 + N);
	perm = asc;
	for (size_t i = perm.size(); i > 1; --i) std::swap(perm[i - 1], perm[rng.below(static_cast<uint32_t>(i))]);
	dispatchSweep(m, perm);
	std::vector<unsigned> desc(asc.rbegin(), asc.rend());
	dispatchSweep(m, desc);
	// replayTransition dispatches by id as well
	for (unsigned k : perm) {
		const unsigned before = m.activeStateId();
		g_n = 0;
		m.replayTransition(static_cast<ffsm2::StateID>(k));
		e.clear();
		const uint8_t B = static_cast<uint8_t>(before), K = static_cast<uint8_t>(k);
		if (k != before) { e.push_back({EXIT, B}); e.push_back({ENTER, K}); } else e.push_back({REENTER, K});
		expectLog(m, e, "C14", "dispatch-replay", "replayTransition(" + std::to_string(k) + ") from " + std::to_string(before));
		checkActive(m, static_cast<int>(k), "replayTransition");
		g_stats.add("replay_dispatch_checks");
	}
	g_n = 0;
	const unsigned last = m.activeStateId();
	m.exit();
	e.clear();
	e.push_back({EXIT, static_cast<uint8_t>(last)});
	if (WIDE_HEAD) e.push_back({EXIT, ROOT});
	expectLog(m, e, "C14", "final-exit", "exit()");
	checkActive(m, -1, "exit()");
	g_stats.add("machines");
}
#endif

// ---------------------------------------------------------------------------
// C12: all (saver, loader) pairs

// the serial buffer between canaries; the canary pattern varies (a stray read of the byte behind the buffer must not
// matter, a stray write must be seen whatever bit it flips)
struct Guarded {
	uint8_t pre[16];
	Instance::SerialBuffer buf;
	uint8_t post[16];
	uint8_t a, b;
	explicit Guarded(unsigned pattern = 0) {
		static const uint8_t PRE[4] = {0xA5, 0xFF, 0x00, 0x5A}, POST[4] = {0x5A, 0xFF, 0x00, 0xA5};
		a = PRE[pattern & 3]; b = POST[pattern & 3];
		memset(pre, a, sizeof pre); memset(post, b, sizeof post); memset(static_cast<void*>(&buf), (pattern & 4) ? 0x00 : 0xFF, sizeof buf);
	}
	bool intact() const { for (auto c : pre) if (c != a) return false; for (auto c : post) if (c != b) return false; return true; }
};

#if WIDE_AUTO
bool activeOf(const Instance&) { return true; }
void leave(Instance&) {}
constexpr int FIRST_ACTIVITY = 0;    // automatic machines are never inactive
#else
bool activeOf(const Instance& m) { return m.isActive(); }
void leave(Instance& m) { if (m.isActive()) m.exit(); }
constexpr int FIRST_ACTIVITY = -1;
#endif

void putInto(Instance& m, int k) {
	g_vetoAll = false;
#if !WIDE_AUTO
	if (k < 0) { if (m.isActive()) m.exit(); return; }
	if (!m.isActive()) m.enter();
#else
	if (k < 0) k = 0;
#endif
	if (m.activeStateId() != static_cast<unsigned>(k)) m.immediateChangeTo(static_cast<ffsm2::StateID>(k));
}

void runC12() {
	Instance saver, loader;
	constexpr unsigned BITS = Instance::SerialBuffer::BIT_CAPACITY;
	constexpr unsigned BYTES = sizeof(Instance::SerialBuffer);
	if ((1ull << (BITS - 1)) < N) viol("C12", "buffer-capacity-too-small", std::to_string(BITS) + " bits for " + std::to_string(N) + " states");
	std::vector<std::vector<uint8_t>> canon(N + 1);
	std::vector<Instance::SerialBuffer> canonBuf(N + 1);
	// loader states sampled for large N (every saver activity is still loaded into every 'interesting' loader state)
	std::vector<int> loaderStates;
	const bool allPairs = g_args.thorough() || N <= 33;
	if (allPairs) { for (int b = FIRST_ACTIVITY; b < static_cast<int>(N); ++b) loaderStates.push_back(b); }
	else { vh::Rng rng(g_args.seed * 7 + N); loaderStates = {FIRST_ACTIVITY, 0, static_cast<int>(N - 1), static_cast<int>(N / 2)}; for (int i = 0; i < 12; ++i) loaderStates.push_back(static_cast<int>(rng.below(N))); }
	for (int a = FIRST_ACTIVITY; a < static_cast<int>(N); ++a) {
		putInto(saver, a);
		Guarded g(static_cast<unsigned>(a + 1));
		g_n = 0;
		static_cast<const Instance&>(saver).save(g.buf);
		if (g_n) viol("C12", "save-ran-callbacks", "save() in activity " + std::to_string(a) + ": " + logStr());
		if (!g.intact()) viol("C12", "save-wrote-outside-buffer", "canary damaged");
		const uint8_t* p = reinterpret_cast<const uint8_t*>(&g.buf);
		std::vector<uint8_t> bytes(p, p + BYTES);
		for (unsigned bit = BITS; bit < BYTES * 8; ++bit) if (bytes[bit / 8] >> (bit % 8) & 1) { viol("C12", "save-wrote-beyond-bit-capacity", "bit " + std::to_string(bit) + " set, capacity " + std::to_string(BITS)); break; }
		const int sa = activeOf(saver) ? static_cast<int>(saver.activeStateId()) : -1;
		if (sa != a) viol("C12", "save-modified-the-machine|activity", "saver activity " + std::to_string(a) + " became " + std::to_string(sa));
		for (int prev = -1; prev < a; ++prev)
			if (canon[static_cast<size_t>(prev + 1)] == bytes) { viol("C12", "buffers-equal-for-different-activity", "activity " + std::to_string(prev) + " and " + std::to_string(a) + " serialise identically"); break; }
		canon[static_cast<size_t>(a + 1)] = bytes;
		canonBuf[static_cast<size_t>(a + 1)] = g.buf;
		for (int b : loaderStates) {
			putInto(loader, b);
			// the loader reads from a copy of the buffer placed between canaries of a varying pattern
			Guarded gl(static_cast<unsigned>(a + 1) * 3u + static_cast<unsigned>(b + 1));
			memcpy(static_cast<void*>(&gl.buf), &g.buf, BYTES);
			g_vetoAll = true;
			g_n = 0;
			loader.load(gl.buf);
			g_vetoAll = false;
			if (!gl.intact() || memcmp(&gl.buf, &g.buf, BYTES) != 0) viol("C12", "load-modified-the-buffer-or-its-surroundings", "saver " + std::to_string(a) + ", loader " + std::to_string(b));
			std::vector<Expect> e;
			const uint8_t A = static_cast<uint8_t>(a), B = static_cast<uint8_t>(b);
			bool alt = false;
			if (a >= 0 && b >= 0) { if (a != b) { e.push_back({EXIT, B}); e.push_back({ENTER, A}); } else { e.push_back({REENTER, A}); alt = true; } }
			else if (a < 0 && b >= 0) { e.push_back({EXIT, B}); if (WIDE_HEAD) e.push_back({EXIT, ROOT}); }
			else if (a >= 0 && b < 0) { if (WIDE_HEAD) e.push_back({ENTER, ROOT}); e.push_back({ENTER, A}); }
			if (!matchLog(e) && !(alt && g_n == 0))
				viol("C12", std::string("load-trace|saver=") + (a < 0 ? "inactive" : "active") + "|loader=" + (b < 0 ? "inactive" : a == b ? "same" : "other"),
					 "load(): saver " + std::to_string(a) + ", loader " + std::to_string(b) + " ran [" + logStr() + "], expected [" + expStr(e) + "]");
			checkIdentity(loader, "load()");
			const int la = activeOf(loader) ? static_cast<int>(loader.activeStateId()) : -1;
			if (la != a) viol("C12", "loader-activity-differs-from-saver", "saver " + std::to_string(a) + ", loader after load() " + std::to_string(la));
			Guarded g2(static_cast<unsigned>(b + 2));
			static_cast<const Instance&>(loader).save(g2.buf);
			if (!g2.intact()) viol("C12", "save-wrote-outside-buffer", "canary damaged (re-save)");
			if (memcmp(&g2.buf, &g.buf, BYTES) != 0) viol("C12", "buffers-differ-for-equal-activity", "loader re-saved differs, activity " + std::to_string(a));
			g_stats.add("load_pairs_checked");
			g_sigs.insert(vh::mix(vh::mix(N, WIDE_HEAD), vh::mix(static_cast<uint64_t>(a + 1), static_cast<uint64_t>(b + 1))));
		}
	}
	// "equal buffers if and only if equal activity", asked through the buffer type's own comparison operators
	for (size_t i = WIDE_AUTO; i <= N; ++i)
		for (size_t j = WIDE_AUTO; j <= N; ++j) {
			const bool eq = canonBuf[i] == canonBuf[j], ne = canonBuf[i] != canonBuf[j];
			if (eq != (i == j) || ne != (i != j)) {
				viol("C12", "buffer-comparison-operators-vs-activity", "buffers of activity " + std::to_string(static_cast<int>(i) - 1) + " and " + std::to_string(static_cast<int>(j) - 1) + ": operator== says " + std::to_string(eq) + ", operator!= says " + std::to_string(ne));
				i = N + 1; break;
			}
			g_stats.add("buffer_operator_comparisons");
		}
	// the same round trip through a buffer that is a heap object of exactly sizeof(SerialBuffer) bytes: under
	// AddressSanitizer / memcheck an access one byte past it is reported (C18)
	for (int a = FIRST_ACTIVITY; a < static_cast<int>(N); a += (N > 40 ? 7 : 1)) {
		putInto(saver, a);
		Instance::SerialBuffer* hb = new Instance::SerialBuffer;
		static_cast<const Instance&>(saver).save(*hb);
		putInto(loader, a < 0 ? 0 : (WIDE_AUTO ? static_cast<int>((a + 1) % N) : -1));
		loader.load(*hb);
		const int la = activeOf(loader) ? static_cast<int>(loader.activeStateId()) : -1;
		if (la != a) viol("C12", "loader-activity-differs-from-saver|heap-buffer", "saver " + std::to_string(a) + ", loader after load() " + std::to_string(la));
		delete hb;
		g_stats.add("heap_buffer_round_trips");
	}
	leave(saver);
	leave(loader);
	g_stats.add(allPairs ? "machines_all_pairs" : "machines_sampled_pairs");
}

// C13, last clause: the bit width the machine derives for its state count encodes every state index of that count
void runC13() {
	constexpr unsigned BITS = Instance::SerialBuffer::BIT_CAPACITY;
	constexpr unsigned BYTES = sizeof(Instance::SerialBuffer);
	if ((1ull << (BITS - 1)) < N) viol("C13", "derived-width-cannot-encode-every-index", std::to_string(BITS) + " bits (1 activity bit + index) for " + std::to_string(N) + " states");
	if (BYTES * 8 < BITS) viol("C13", "buffer-smaller-than-its-bit-capacity", std::to_string(BYTES) + " bytes for " + std::to_string(BITS) + " bits");
	Instance saver, loader;
	std::vector<std::vector<uint8_t>> seen;
	for (int a = 0; a < static_cast<int>(N); ++a) {
		putInto(saver, a);
		Guarded g(static_cast<unsigned>(a));
		static_cast<const Instance&>(saver).save(g.buf);
		const uint8_t* p = reinterpret_cast<const uint8_t*>(&g.buf);
		std::vector<uint8_t> bytes(p, p + BYTES);
		for (size_t i = 0; i < seen.size(); ++i)
			if (seen[i] == bytes) { viol("C13", "two-state-indices-encode-identically", "index " + std::to_string(i) + " and " + std::to_string(a) + " of a " + std::to_string(N) + "-state machine"); break; }
		seen.push_back(bytes);
		putInto(loader, a == 0 && N > 1 ? 1 : 0);
		Guarded gl(static_cast<unsigned>(a) + 1u);
		memcpy(static_cast<void*>(&gl.buf), &g.buf, BYTES);
		loader.load(gl.buf);
		const int la = activeOf(loader) ? static_cast<int>(loader.activeStateId()) : -1;
		if (la != a) viol("C13", "state-index-does-not-survive-its-encoding", "index " + std::to_string(a) + " of a " + std::to_string(N) + "-state machine was written with the derived width and read back as " + std::to_string(la));
		g_stats.add("index_round_trips");
		g_sigs.insert(vh::mix(vh::mix(N, WIDE_HEAD), static_cast<uint64_t>(a)));
	}
	leave(saver);
	leave(loader);
}

}

int main(int argc, char** argv) {
	g_args = vh::parseArgs(argc, argv);
#if WIDE_AUTO
	if (g_args.prop == "C13") runC13();
	else if (g_args.prop == "C14") { /* dispatch sweeps run on the manually activated twin */ }
	else { runC12(); if (g_args.prop != "C12") runC13(); }
#else
	if (g_args.prop == "C12") runC12();
	else if (g_args.prop == "C14") runC14();
	else if (g_args.prop == "C13") runC13();
	else { runC14(); runC12(); runC13(); }
#endif
	g_stats.add2("sizes", std::to_string(N) + (WIDE_HEAD ? "h" : "p") + (WIDE_AUTO ? "a" : ""));
	g_stats.emit();
	vh::writeSigs(g_args.str("sigfile", ""), g_sigs);
	printf("@SAMPLE {\"N\":%u,\"head\":%d,\"last_callbacks\":\"%s\"}\n", N, WIDE_HEAD, vh::jesc(logStr()).c_str());
	return 0;
}
