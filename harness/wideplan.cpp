// E3b wideplan: plans on machines of every size (-DWIDE_N=4..255, -DWIDE_HEAD=0|1, -DWIDE_CAP=0|n).
// The behavioural monitor (fsmmon) drives plans on machines of up to 32 states; this engine takes the
// plan clauses that mention "every machine size / every task capacity" to the large state ids:
//   C10: exactly <capacity> appends are accepted, iteration yields them in order, the full capacity is
//        back after churn (iterator removal, clear, consumption by firing);
//   C08: a task fires only for its active, succeeded origin, in plan order, once, carrying its payload and
//        its origin; tasks that do not fire stay in order;
//   C09: planFailed is delivered when the active state fails with a non-empty plan, the plan is empty
//        afterwards, no task fires in that cycle; no outcome without a task.
// Every check is run with every state k of the machine as the origin.

#define FFSM2_ENABLE_PLANS
#define FFSM2_ENABLE_TRANSITION_HISTORY
#include VERIF_FFSM2_HEADER

#include "vh.hpp"

#include <utility>

#ifndef WIDE_N
#define WIDE_N 5
#endif
#ifndef WIDE_HEAD
#define WIDE_HEAD 0
#endif
#ifndef WIDE_CAP
#define WIDE_CAP 0
#endif

namespace {

constexpr unsigned N = WIDE_N;
constexpr unsigned ROOT = 255;
constexpr unsigned CAP = WIDE_CAP ? WIDE_CAP : N;   // what the configuration asks for
static_assert(N >= 4, "small machines are the behavioural monitor's business");

enum Kind : uint8_t { ENTRY_GUARD, ENTER, REENTER, UPDATE, EXIT, PLAN_SUCCEEDED, PLAN_FAILED, KINDS };
const char* kname[] = {"entryGuard", "enter", "reenter", "update", "exit", "planSucceeded", "planFailed"};

struct Rec { uint8_t kind, sid; uint8_t origin, dest; uint32_t pay; bool hasPay; };
Rec g_log[64];
unsigned g_n = 0;
int g_succeedIn = -1, g_failIn = -1, g_vetoEntryOf = -1;

#if WIDE_CAP
using M = ffsm2::MachineT<ffsm2::Config::PayloadT<uint32_t>::TaskCapacityN<WIDE_CAP>>;
#else
using M = ffsm2::MachineT<ffsm2::Config::PayloadT<uint32_t>>;
#endif
template <unsigned I> struct W;
struct H;

template <typename> struct Make;
template <size_t... I>
struct Make<std::index_sequence<I...>> {
#if WIDE_HEAD
	using Type = M::Root<H, W<I>...>;
#else
	using Type = M::PeerRoot<W<I>...>;
#endif
};
using FSM = Make<std::make_index_sequence<N>>::Type;

template <typename TTransition>
void rec(uint8_t kind, uint8_t sid, const TTransition& t) {
	if (g_n < 64) { Rec r{kind, sid, t.origin, t.destination, 0, false}; if (t.payload()) { r.hasPay = true; r.pay = *t.payload(); } g_log[g_n] = r; }
	++g_n;
}
void rec0(uint8_t kind, uint8_t sid) { if (g_n < 64) g_log[g_n] = Rec{kind, sid, 255, 255, 0, false}; ++g_n; }

template <unsigned I>
struct W : FSM::State {
	void entryGuard(GuardControl& c) { rec(ENTRY_GUARD, I, c.pendingTransition()); if (g_vetoEntryOf == static_cast<int>(I)) c.cancelPendingTransition(); }
	void enter(PlanControl& c) { rec(ENTER, I, c.currentTransition()); }
	void reenter(PlanControl& c) { rec(REENTER, I, c.currentTransition()); }
	void update(FullControl& c) {
		rec0(UPDATE, I);
		if (g_succeedIn == static_cast<int>(I)) c.succeed();
		if (g_failIn == static_cast<int>(I)) c.fail();
	}
	void exit(PlanControl& c) { rec(EXIT, I, c.currentTransition()); }
};
struct H : FSM::State {
	void planSucceeded(FullControl&) { rec0(PLAN_SUCCEEDED, ROOT); }
	void planFailed(FullControl&) { rec0(PLAN_FAILED, ROOT); }
};

using Instance = FSM::Instance;
using StateID = ffsm2::StateID;

vh::Reporter g_rep;
vh::Stats g_stats;
vh::Args g_args;
std::unordered_set<uint64_t> g_sigs;

std::string logStr() {
	std::string s;
	for (unsigned i = 0; i < g_n && i < 64; ++i) {
		const Rec& r = g_log[i];
		s += (r.sid == ROOT ? std::string("R") : std::to_string(r.sid)) + "." + kname[r.kind];
		if (r.kind == ENTRY_GUARD || r.kind == ENTER) s += "{" + std::to_string(r.origin) + ">" + std::to_string(r.dest) + (r.hasPay ? "#" + std::to_string(r.pay) : "") + "}";
		s += " ";
	}
	return s;
}

void viol(const char* prop, const std::string& key, const std::string& msg) {
	if (!g_args.prop.empty() && g_args.prop != "ALL" && g_args.prop != prop) return;
	char head[128];
	snprintf(head, sizeof head, "[N=%u %s capacity=%u] ", N, WIDE_HEAD ? "Root<H,...>" : "PeerRoot<...>", CAP);
	g_rep.report(prop, key, head + msg);
}

struct T3 { unsigned o, d; bool hasPay; uint32_t pay; };
std::string planStr(const std::vector<T3>& p) { std::string s = "["; for (auto& t : p) s += std::to_string(t.o) + ">" + std::to_string(t.d) + (t.hasPay ? "#" + std::to_string(t.pay) : "") + " "; return s + "]"; }

std::vector<T3> readPlan(const Instance& m) {
	std::vector<T3> v;
	unsigned guard = 0;
	for (auto it = m.plan().begin(); it; ++it) {
		T3 t{it->origin, it->destination, false, 0};
		if (it->payload()) { t.hasPay = true; t.pay = *it->payload(); }
		v.push_back(t);
		if (++guard > 600) break;
	}
	return v;
}
// the same walk through the editable handle (kind 1) and through a const-qualified editable handle (kind 2)
std::vector<T3> readPlanVia(Instance& m, const int kind) {
	std::vector<T3> v;
	unsigned guard = 0;
	if (kind == 1) {
		auto plan = m.plan();
		for (auto it = plan.begin(); it; ++it) {
			T3 t{it->origin, it->destination, false, 0};
			if (it->payload()) { t.hasPay = true; t.pay = *it->payload(); }
			v.push_back(t);
			if (++guard > 600) break;
		}
	} else {
		const auto plan = m.plan();
		for (auto it = plan.begin(); it; ++it) {
			T3 t{it->origin, it->destination, false, 0};
			if (it->payload()) { t.hasPay = true; t.pay = *it->payload(); }
			v.push_back(t);
			if (++guard > 600) break;
		}
	}
	return v;
}
bool same(const std::vector<T3>& a, const std::vector<T3>& b) {
	if (a.size() != b.size()) return false;
	for (size_t i = 0; i < a.size(); ++i) if (a[i].o != b[i].o || a[i].d != b[i].d || a[i].hasPay != b[i].hasPay || (a[i].hasPay && a[i].pay != b[i].pay)) return false;
	return true;
}
void expectPlan(const Instance& m, const std::vector<T3>& want, const char* prop, const std::string& key, const std::string& where) {
	const std::vector<T3> got = readPlan(m);
	if (!same(got, want)) viol(prop, key, where + ": plan iterates as " + planStr(got) + ", expected " + planStr(want));
	for (int kind = 1; kind <= 2; ++kind) {
		const std::vector<T3> via = readPlanVia(const_cast<Instance&>(m), kind);   // every instance here is a non-const object
		if (!same(via, want)) {
			viol(prop, key + (kind == 1 ? "|editable-handle" : "|const-editable-handle"), where + ": plan iterates as " + planStr(via).substr(0, 400) + " through the " + (kind == 1 ? "editable" : "const-qualified editable") + " handle, expected " + planStr(want));
			if (via.size() > 600) viol("C18", "plan-traversal-does-not-end", where + ": a traversal of a plan of " + std::to_string(want.size()) + " tasks was still going after 600 steps");
		}
	}
	if (static_cast<bool>(m.plan()) != !want.empty()) viol("C10", "plan-bool-disagrees-with-content", where + ": bool(plan)=" + std::to_string(static_cast<bool>(m.plan())) + " with " + std::to_string(want.size()) + " tasks expected");
}

unsigned count(uint8_t kind) { unsigned n = 0; for (unsigned i = 0; i < g_n && i < 64; ++i) if (g_log[i].kind == kind) ++n; return n; }
const Rec* first(uint8_t kind) { for (unsigned i = 0; i < g_n && i < 64; ++i) if (g_log[i].kind == kind) return &g_log[i]; return nullptr; }

// ---------------------------------------------------------------------------
// C10: capacity and order with large ids

void fillToCapacity(Instance& m, std::vector<T3>& model, unsigned salt, const std::string& where) {
	unsigned accepted = 0;
	for (unsigned i = 0; i < CAP + 3; ++i) {
		const unsigned o = (i * 7 + salt) % N, d = (i * 13 + salt + 1) % N;
		const bool withPay = (i + salt) % 3 == 0;
		const uint32_t pay = 0xC0DE0000u + i * 31 + salt;
		const bool ok = withPay ? m.plan().changeWith(static_cast<StateID>(o), static_cast<StateID>(d), pay) : m.plan().change(static_cast<StateID>(o), static_cast<StateID>(d));
		const bool room = model.size() < CAP;
		if (ok != room) {
			viol("C10", std::string("append-result|") + (ok ? "accepted-when-full" : "refused-with-room"), where + ": append #" + std::to_string(i) + " returned " + std::to_string(ok) + " with " + std::to_string(model.size()) + " of " + std::to_string(CAP) + " tasks present");
			if (ok) model.push_back(T3{o, d, withPay, pay});
			break;
		}
		if (ok) { model.push_back(T3{o, d, withPay, pay}); ++accepted; }
		g_stats.add("appends");
	}
	expectPlan(m, model, "C10", "plan-content-after-fill", where);
}

// C17: a copy taken with the plan full (and after churn) shows the same plan and behaves the same
void copyCheck(Instance& m, const std::vector<T3>& model, const std::string& where) {
	Instance copy(m);
	if (copy.activeStateId() != m.activeStateId()) viol("C17", "copy-not-observationally-equal|activity", where + ": original active " + std::to_string(m.activeStateId()) + ", copy " + std::to_string(copy.activeStateId()));
	const std::vector<T3> pc = readPlan(copy), po = readPlan(m);
	if (!same(pc, po)) viol("C17", "copy-not-observationally-equal|plan", where + ": the copy's plan iterates as " + planStr(pc).substr(0, 200) + ", the original's as " + planStr(po).substr(0, 200));
	if (!same(po, model)) viol("C17", "copying-changed-the-original|plan", where);
	// the same input to both: the active state succeeds
	const unsigned cur = m.activeStateId();
	g_n = 0; g_succeedIn = static_cast<int>(cur); copy.update(); g_succeedIn = -1;
	const unsigned afterCopy = copy.activeStateId();
	const std::vector<T3> planCopy = readPlan(copy);
	Instance second(m);
	g_n = 0; g_succeedIn = static_cast<int>(cur); second.update(); g_succeedIn = -1;
	(void) afterCopy;
	// (two copies taken from the same original must agree with each other; the original itself is left alone)
	if (second.activeStateId() != afterCopy || !same(readPlan(second), planCopy))
		viol("C17", "copy-diverged-from-original|state", where + ": two copies of one machine, given the same input, ended in states " + std::to_string(afterCopy) + " / " + std::to_string(second.activeStateId()));
	// and against the model: if the first task's origin is the active state it fired (C08 semantics), else nothing moved
	if (!model.empty() && model[0].o == cur) {
		if (afterCopy != model[0].d) viol("C17", "copy-diverged-from-original|inherited-task-did-not-fire", where + ": in the copy the inherited first task " + std::to_string(model[0].o) + ">" + std::to_string(model[0].d) + " did not fire (active " + std::to_string(afterCopy) + ")");
	} else if (afterCopy != cur) viol("C17", "copy-diverged-from-original|unexpected-transition", where + ": the copy moved to " + std::to_string(afterCopy));
	if (!same(readPlan(m), model)) viol("C17", "original-disturbed-by-operation-on-copy|plan", where);
	g_stats.add("copies_compared");
}

void runCapacity(Instance& m) {
	m.plan().clear();
	std::vector<T3> model;
	fillToCapacity(m, model, 1, "first fill");
	copyCheck(m, model, "copy of a machine with a full plan");
	// churn: remove every second task through the iterator while iterating, then refill
	{
		std::vector<T3> kept, seen;
		unsigned i = 0;
		for (auto it = m.plan().begin(); it; ++it, ++i) {
			T3 t{it->origin, it->destination, false, 0};
			if (it->payload()) { t.hasPay = true; t.pay = *it->payload(); }
			seen.push_back(t);
			if (i % 2 == 1) it.remove(); else kept.push_back(t);
			if (i > 600) break;
		}
		if (!same(seen, model)) viol("C10", "iteration-disturbed-by-iterator-remove", "iterating " + planStr(model) + " while removing every second task visited " + planStr(seen));
		model = kept;
		expectPlan(m, model, "C10", "plan-after-iterator-remove", "after removing every second task");
		g_stats.add("iterator_removes", static_cast<double>(i / 2));
	}
	fillToCapacity(m, model, 2, "refill after removals");
	copyCheck(m, model, "copy after removals and refill");
	// churn at full capacity: take exactly one task out (position rotates: first, middle, last ...) and append one, again
	// and again - the free list then holds a single slot every time.  The tasks that stay must stay as they are (C08) and
	// iteration must show exactly the appended-and-not-removed sequence (C10).
	for (unsigned round = 0; round < 2 * CAP + 7 && model.size() == CAP; ++round) {
		const unsigned victim = (round * 5 + round / 3) % CAP;
		unsigned i = 0;
		for (auto it = m.plan().begin(); it; ++it, ++i) if (i == victim) { it.remove(); break; }
		model.erase(model.begin() + victim);
		const unsigned o = (round * 11 + 5) % N, d = (round * 3 + 1) % N;
		const uint32_t pay = 0xF00D0000u + round;
		const bool withPay = round % 2 == 0;
		const bool ok = withPay ? m.plan().changeWith(static_cast<StateID>(o), static_cast<StateID>(d), pay) : m.plan().change(static_cast<StateID>(o), static_cast<StateID>(d));
		if (!ok) { viol("C10", "append-result|refused-with-room", "full plan, one task removed, append refused (round " + std::to_string(round) + ")"); break; }
		model.push_back(T3{o, d, withPay, pay});
		const std::vector<T3> got = readPlan(m);
		if (!same(got, model)) {
			const std::string msg = "round " + std::to_string(round) + " of remove-one/append-one at full capacity: removed position " + std::to_string(victim) + "; plan iterates as " + planStr(got).substr(0, 300) + " expected " + planStr(model).substr(0, 300);
			viol("C10", "plan-content-after-churn-at-capacity", msg);
			viol("C08", "unfired-tasks-left-or-reordered|churn-at-capacity", msg);
			break;
		}
		g_stats.add("single_vacancy_rounds");
	}
	m.plan().clear();
	model.clear();
	expectPlan(m, model, "C10", "plan-not-empty-after-clear", "after clear()");
	fillToCapacity(m, model, 3, "fill after clear()");
	if (model.size() != CAP) viol("C10", std::string("capacity-after-history|") + (model.size() < CAP ? "leaked" : "exceeded"), "after churn " + std::to_string(model.size()) + " appends were accepted, capacity is " + std::to_string(CAP));
	m.plan().clear();
	g_stats.add("capacity_passes");
}

// ---------------------------------------------------------------------------
// C08 / C09 with every state as origin

void step(Instance& m, int succeedIn, int failIn) {
	g_n = 0; g_succeedIn = succeedIn; g_failIn = failIn;
	m.update();
	g_succeedIn = g_failIn = -1;
}

void runFiring(Instance& m) {
	for (unsigned k = 0; k < N; ++k) {
		const unsigned k2 = (k + 1 + N / 2) % N == k ? (k + 1) % N : (k + 1 + N / 2) % N;
		unsigned k3 = (k2 + 1) % N; if (k3 == k) k3 = (k3 + 1) % N;
		unsigned kx = (k + 2) % N; if (kx == k2) kx = (kx + 1) % N; if (kx == k) kx = (kx + 1) % N;
		const std::string K = "origin " + std::to_string(k);
		const uint32_t p1 = 0xAB000000u + k * 257u;
		m.immediateChangeTo(static_cast<StateID>(k));
		m.plan().clear();
		if (m.activeStateId() != k) { viol("C14", "immediateChangeTo-did-not-reach-state", K); continue; }
		std::vector<T3> model;
		const bool a1 = m.plan().changeWith(static_cast<StateID>(k), static_cast<StateID>(k2), p1);
		const bool a2 = CAP >= 2 && m.plan().change(static_cast<StateID>(k2), static_cast<StateID>(k3));
		const bool a3 = CAP >= 3 && m.plan().change(static_cast<StateID>(k), static_cast<StateID>(kx));
		if (!a1 || (CAP >= 2 && !a2) || (CAP >= 3 && !a3)) { viol("C10", "append-result|refused-with-room", K + ": appends to an empty plan returned " + std::to_string(a1) + std::to_string(a2) + std::to_string(a3)); m.plan().clear(); continue; }
		model.push_back(T3{k, k2, true, p1});
		if (CAP >= 2) model.push_back(T3{k2, k3, false, 0});
		if (CAP >= 3) model.push_back(T3{k, kx, false, 0});
		expectPlan(m, model, "C10", "plan-content-after-append", K);

		// no report: nothing fires
		step(m, -1, -1);
		if (count(ENTRY_GUARD) || count(EXIT) || m.activeStateId() != k) viol("C08", "fire-without-success-report", K + ": update() without any report ran [" + logStr() + "]");
		if (count(PLAN_SUCCEEDED) || count(PLAN_FAILED)) viol("C09", "outcome-without-report", K + ": update() without any report ran [" + logStr() + "]");
		expectPlan(m, model, "C08", "unfired-tasks-left-or-reordered", K + " after an update without reports");

		// success of a state that is not active: nothing fires
		m.succeed(static_cast<StateID>(k2));
		step(m, -1, -1);
		if (count(ENTRY_GUARD) || count(EXIT) || m.activeStateId() != k) viol("C08", "fire-origin-not-active", K + ": success reported for inactive state " + std::to_string(k2) + ", update() ran [" + logStr() + "]");
		expectPlan(m, model, "C08", "unfired-tasks-left-or-reordered", K + " after a report for an inactive state");

		// the active origin succeeds: the first task fires, with payload and origin, once; the rest stays
		step(m, static_cast<int>(k), -1);
		{
			const Rec* g = first(ENTRY_GUARD);
			const bool okGuard = g && g->sid == k2 && g->origin == k && g->dest == k2 && g->hasPay && g->pay == p1 && count(ENTRY_GUARD) == 1;
			const Rec* e = first(ENTER);
			const bool okEnter = e && e->sid == k2 && e->origin == k && e->dest == k2 && e->hasPay && e->pay == p1 && count(ENTER) == 1 && count(EXIT) == 1 && first(EXIT)->sid == k;
			if (!okGuard || !okEnter || m.activeStateId() != k2)
				viol("C08", "head-task-did-not-fire-as-described", K + ": state succeeded with plan " + planStr(model) + "; update() ran [" + logStr() + "], active state " + std::to_string(m.activeStateId()) + ", expected task " + std::to_string(k) + ">" + std::to_string(k2) + "#" + std::to_string(p1));
			const auto& pt = m.previousTransition();
			if (!(pt.origin == k && pt.destination == k2 && pt.payload() && *pt.payload() == p1))
				viol("C08", "fired-request-origin-or-payload", K + ": previousTransition() after the fire is " + std::to_string(pt.origin) + ">" + std::to_string(pt.destination));
			if (count(PLAN_SUCCEEDED) || count(PLAN_FAILED)) viol("C09", "outcome-with-tasks-remaining", K + ": [" + logStr() + "]");
			model.erase(model.begin());
			expectPlan(m, model, "C08", "fired-task-not-removed-or-unfired-task-removed", K + " after the first fire");
			g_stats.add("fires_checked");
		}
		if (CAP >= 3 && m.activeStateId() == k2) {
			// k2 succeeds: k2>k3 fires; k>kx (origin not active) stays
			step(m, static_cast<int>(k2), -1);
			const Rec* e = first(ENTER);
			if (!(e && e->sid == k3 && e->origin == k2 && !e->hasPay && count(ENTER) == 1) || m.activeStateId() != k3)
				viol("C08", "head-task-did-not-fire-as-described", K + ": second task " + std::to_string(k2) + ">" + std::to_string(k3) + "; update() ran [" + logStr() + "]");
			model.erase(model.begin());
			expectPlan(m, model, "C08", "fired-task-not-removed-or-unfired-task-removed", K + " after the second fire");
			g_stats.add("fires_checked");
			// k3 succeeds, the remaining task has another origin: nothing fires, no outcome (a task remains)
			step(m, static_cast<int>(k3), -1);
			if (count(ENTRY_GUARD) || m.activeStateId() != k3) viol("C08", "fire-origin-not-active", K + ": task " + planStr(model) + " fired while " + std::to_string(k3) + " is active: [" + logStr() + "]");
			if (count(PLAN_SUCCEEDED)) viol("C09", "planSucceeded-with-tasks-remaining", K + ": [" + logStr() + "]");
			expectPlan(m, model, "C08", "unfired-tasks-left-or-reordered", K + " after a success of another state");
		}
		// a fired task whose transition is vetoed: the task is gone and its success report is used up - the next task of the
		// same origin waits for a new report
		{
			m.plan().clear();
			model.clear();
			const unsigned here = m.activeStateId();
			const unsigned d1 = (here + 1) % N, d2 = (here + 2) % N;
			if (m.plan().change(static_cast<StateID>(here), static_cast<StateID>(d1))) {
				g_vetoEntryOf = static_cast<int>(d1);
				step(m, static_cast<int>(here), -1);
				g_vetoEntryOf = -1;
				if (m.activeStateId() != here || count(ENTER)) viol("C03", "vetoed-destination-entered", K + ": entry guard of " + std::to_string(d1) + " cancelled, update() ran [" + logStr() + "]");
				expectPlan(m, model, "C08", "fired-task-not-removed-or-unfired-task-removed", K + " after a fire whose transition was vetoed");
				// a new task of the same origin, no new report
				if (m.plan().change(static_cast<StateID>(here), static_cast<StateID>(d2))) {
					model.push_back(T3{here, d2, false, 0});
					step(m, -1, -1);
					if (count(ENTRY_GUARD) || m.activeStateId() != here)
						viol("C08", "fire-without-success-report|report-already-consumed", K + ": task " + std::to_string(here) + ">" + std::to_string(d2) + " fired in a cycle without a new success report (the earlier one was consumed by the task before it): [" + logStr() + "]");
					if (count(PLAN_SUCCEEDED) || count(PLAN_FAILED)) viol("C09", "outcome-without-report", K + ": [" + logStr() + "]");
					expectPlan(m, model, "C08", "unfired-tasks-left-or-reordered", K + " after a cycle without reports");
				}
				g_stats.add("vetoed_fires_checked");
			}
		}
		// failure of the active state with a non-empty plan: planFailed, plan emptied, nothing fires
		m.plan().clear();
		model.clear();
		const unsigned cur = m.activeStateId();
		m.plan().change(static_cast<StateID>(cur), static_cast<StateID>(k));
		model.push_back(T3{cur, k, false, 0});
		step(m, static_cast<int>(cur), static_cast<int>(cur));   // reports success and failure: failure wins
		if (count(ENTRY_GUARD) || count(ENTER) || m.activeStateId() != cur) viol("C09", "fire-in-planFailed-cycle", K + ": active state " + std::to_string(cur) + " failed; update() ran [" + logStr() + "]");
#if WIDE_HEAD
		if (count(PLAN_FAILED) != 1 || count(PLAN_SUCCEEDED)) viol("C09", "planFailed-not-delivered", K + ": active state " + std::to_string(cur) + " failed with plan " + planStr(model) + "; update() ran [" + logStr() + "]");
#endif
		model.clear();
		expectPlan(m, model, "C09", "plan-not-empty-after-planFailed", K + " after the failure cycle");
		g_stats.add("origins_checked");
		g_sigs.insert(vh::mix(vh::mix(N, WIDE_HEAD * 1000 + CAP), k));
	}
}

}

int main(int argc, char** argv) {
	g_args = vh::parseArgs(argc, argv);
	Instance m;
	// no task was ever added: reports alone deliver no outcome
	g_n = 0; g_succeedIn = 0; m.update(); g_succeedIn = -1;
	if (count(PLAN_SUCCEEDED) || count(PLAN_FAILED)) viol("C09", "outcome-without-any-task-added", "fresh machine, state 0 succeeded: [" + logStr() + "]");
	runCapacity(m);
	runFiring(m);
	runCapacity(m);
	g_stats.add2("sizes", std::to_string(N) + (WIDE_HEAD ? "h" : "p") + (WIDE_CAP ? "c" + std::to_string(CAP) : ""));
	g_stats.emit();
	vh::writeSigs(g_args.str("sigfile", ""), g_sigs);
	printf("@SAMPLE {\"N\":%u,\"head\":%d,\"capacity\":%u,\"last_callbacks\":\"%s\"}\n", N, WIDE_HEAD, CAP, vh::jesc(logStr()).c_str());
	return 0;
}
