// E1 fsmmon — recorder, chooser, shadow model and the per-property trace monitors.
//
// Everything the monitors know comes from (a) the harness's own actions, (b) the callbacks
// the library delivers, (c) what control objects / public observers report, (d) logger
// records.  Nothing reads FFSM2 internals.
#pragma once

#include "fsm_cfg.hpp"
#include "vh.hpp"

#include <stdarg.h>

#include <algorithm>
#include <array>
#include <type_traits>

namespace mon {

using ffsm2::Method;
using ffsm2::StateID;
using cfg::N;
using cfg::ROOT;

// ---------------------------------------------------------------------------
// small value types

struct Req {
	bool valid = false;
	uint8_t origin = 255, dest = 255;
	bool hasPay = false;
	uint64_t tag = 0;

	bool same(const Req& o) const {
		if (valid != o.valid) return false;
		if (!valid) return true;
		return origin == o.origin && dest == o.dest && hasPay == o.hasPay && (!hasPay || ((tag ^ o.tag) & cfg::TAGMASK) == 0);
	}
	std::string str() const {
		if (!valid) return "-";
		char b[64];
		if (hasPay) snprintf(b, sizeof b, "%u>%u#%llx", origin, dest, (unsigned long long) (tag & cfg::TAGMASK));
		else snprintf(b, sizeof b, "%u>%u", origin, dest);
		return b;
	}
};

struct Task {
	uint8_t origin = 255, dest = 255;
	bool hasPay = false;
	uint64_t tag = 0;
	bool same(const Task& o) const { return origin == o.origin && dest == o.dest && hasPay == o.hasPay && (!hasPay || ((tag ^ o.tag) & cfg::TAGMASK) == 0); }
	std::string str() const { Req r; r.valid = true; r.origin = origin; r.dest = dest; r.hasPay = hasPay; r.tag = tag; return r.str(); }
};

using PlanVec = std::vector<Task>;

inline std::string planStr(const PlanVec& p) {
	std::string s = "[";
	for (size_t i = 0; i < p.size(); ++i) { if (i) s += " "; s += p[i].str(); }
	return s + "]";
}
inline bool samePlan(const PlanVec& a, const PlanVec& b) {
	if (a.size() != b.size()) return false;
	for (size_t i = 0; i < a.size(); ++i) if (!a[i].same(b[i])) return false;
	return true;
}

template <typename TTransition>
inline Req toReq(const TTransition& t) {
	Req r;
	r.valid = static_cast<bool>(t);
	r.origin = t.origin;
	r.dest = t.destination;
#if HAS_PAYLOAD
	if (const cfg::Payload* p = t.payload()) { r.hasPay = true; r.tag = cfg::tagOf(*p); }
#endif
	return r;
}

#if HAS_PLANS
template <typename TTask>
inline Task toTask(const TTask& t) {
	Task r;
	r.origin = t.origin;
	r.dest = t.destination;
#if HAS_PAYLOAD
	if (const cfg::Payload* p = t.payload()) { r.hasPay = true; r.tag = cfg::tagOf(*p); }
#endif
	return r;
}
#endif

inline const char* mname(Method m) {
	switch (m) {
	case Method::ENTRY_GUARD: return "entryGuard"; case Method::ENTER: return "enter"; case Method::REENTER: return "reenter";
	case Method::PRE_UPDATE: return "preUpdate"; case Method::UPDATE: return "update"; case Method::POST_UPDATE: return "postUpdate";
	case Method::PRE_REACT: return "preReact"; case Method::REACT: return "react"; case Method::POST_REACT: return "postReact";
	case Method::QUERY: return "query"; case Method::EXIT_GUARD: return "exitGuard"; case Method::EXIT: return "exit";
	case Method::PLAN_SUCCEEDED: return "planSucceeded"; case Method::PLAN_FAILED: return "planFailed";
	default: return "?";
	}
}

inline std::string fmt(const char* f, ...) __attribute__((format(printf, 1, 2)));
inline std::string fmt(const char* f, ...) {
	char buf[2048];
	va_list ap;
	va_start(ap, f);
	vsnprintf(buf, sizeof buf, f, ap);
	va_end(ap);
	return buf;
}

// ---------------------------------------------------------------------------
// operations of the API driver

enum Op : uint8_t {
	OP_CTOR, OP_DTOR, OP_ENTER, OP_EXIT, OP_UPDATE, OP_REACT, OP_QUERY,
	OP_CHANGE, OP_CHANGE_WITH, OP_IMMEDIATE, OP_IMMEDIATE_WITH,
	OP_SUCCEED, OP_FAIL, OP_PLAN_APPEND, OP_PLAN_REMOVE, OP_PLAN_CLEAR,
	OP_SAVE, OP_LOAD, OP_REPLAY_ENTER, OP_REPLAY, OP_COPY, OP_ATTACH, OP_DETACH, OP_OBSERVE, OP_MOVE,
	OP_COUNT
};

inline const char* opName(uint8_t op) {
	static const char* n[] = {"ctor", "dtor", "enter", "exit", "update", "react", "query", "changeTo", "changeWith", "immediateChangeTo",
							  "immediateChangeWith", "succeed", "fail", "plan.append", "plan.remove", "plan.clear", "save", "load",
							  "replayEnter", "replayTransition", "copy", "attachLogger", "detachLogger", "observe", "move"};
	return op < OP_COUNT ? n[op] : "?";
}

inline bool isProcessingOp(uint8_t op) { return op == OP_UPDATE || op == OP_REACT || op == OP_IMMEDIATE || op == OP_IMMEDIATE_WITH; }
inline bool isActivationOp(uint8_t op) { return (op == OP_CTOR && !cfg::MANUAL) || op == OP_ENTER; }

// ---------------------------------------------------------------------------
// events

enum EvKind : uint8_t { EV_API_BEGIN, EV_API_END, EV_SUB, EV_ACT, EV_LOG };

enum ActKind : uint8_t {
	ACT_CHANGE, ACT_CHANGE_WITH, ACT_CANCEL, ACT_SUCCEED, ACT_FAIL, ACT_PLAN_APPEND, ACT_PLAN_APPEND_FULL, ACT_PLAN_REMOVE, ACT_PLAN_CLEAR
};
enum LogKind : uint8_t { LOG_METHOD, LOG_TRANSITION, LOG_TASK_STATUS, LOG_CANCELLED };

struct Ev {
	uint8_t kind = 0, inst = 0, code = 0, sid = 255, inj = 0, a = 255, b = 255, c = 0;
	uint64_t tag = 0;
};

inline std::string evStr(const Ev& e) {
	switch (e.kind) {
	case EV_API_BEGIN: return fmt("%u:%s(%s%s)", e.inst, opName(e.code), e.a == 255 ? "" : std::to_string(e.a).c_str(), e.b == 255 ? "" : ("," + std::to_string(e.b)).c_str());
	case EV_API_END: return fmt("%u:=>%s", e.inst, e.a == 255 ? "inactive" : std::to_string(e.a).c_str());
	case EV_SUB: return e.inj ? fmt("%s.I%u.%s", e.sid == 255 ? "R" : std::to_string(e.sid).c_str(), e.inj, mname(static_cast<Method>(e.code)))
							  : fmt("%s.%s", e.sid == 255 ? "R" : std::to_string(e.sid).c_str(), mname(static_cast<Method>(e.code)));
	case EV_ACT: {
		static const char* n[] = {"changeTo", "changeWith", "cancel", "succeed", "fail", "plan+", "plan+full", "plan-", "planClear"};
		return fmt("!%s(%s%s)", n[e.code], e.a == 255 ? "" : std::to_string(e.a).c_str(), e.b == 255 ? "" : ("," + std::to_string(e.b)).c_str());
	}
	case EV_LOG: {
		static const char* n[] = {"logM", "logT", "logS", "logC"};
		return fmt("~%s(%u,%u)", n[e.code], e.a, e.b);
	}
	}
	return "?";
}

// ---------------------------------------------------------------------------
// chooser: all decisions of a case come from here, so a case can be replayed or enumerated

struct Chooser {
	enum Mode { RANDOM, SCRIPT, ENUM } mode = RANDOM;
	vh::Rng rng;
	std::vector<uint32_t> script;   // SCRIPT: recorded draws; ENUM: current decision vector
	std::vector<uint32_t> arity;    // ENUM
	size_t pos = 0;
	std::vector<uint32_t> drawn;    // what this case drew (replay file)
	bool enumOverflow = false;

	void beginCase() { pos = 0; drawn.clear(); }

	uint32_t draw(uint32_t n) {
		if (n <= 1) return 0;
		uint32_t v;
		switch (mode) {
		case RANDOM: v = rng.below(n); break;
		case SCRIPT: v = pos < script.size() ? script[pos] % n : 0; ++pos; break;
		default:
			if (pos < script.size()) { v = script[pos] % n; arity[pos] = n; }
			else { script.push_back(0); arity.push_back(n); v = 0; }
			++pos;
			break;
		}
		drawn.push_back(v);
		return v;
	}

	// ENUM: advance to the next decision vector; false when the space is exhausted
	bool enumNext() {
		script.resize(pos < script.size() ? pos : script.size());
		arity.resize(script.size());
		while (!script.empty()) {
			if (script.back() + 1 < arity.back()) { ++script.back(); return true; }
			script.pop_back(); arity.pop_back();
		}
		return false;
	}

	// weighted pick: index into weights
	uint32_t pick(std::initializer_list<uint32_t> weights) {
		if (mode == ENUM) {
			uint32_t n = 0;
			for (auto w : weights) if (w) ++n;
			uint32_t k = draw(n), i = 0;
			for (auto w : weights) { if (w) { if (k == 0) return i; --k; } ++i; }
			return 0;
		}
		uint32_t total = 0;
		for (auto w : weights) total += w;
		uint32_t r = draw(total), i = 0;
		for (auto w : weights) { if (r < w) return i; r -= w; ++i; }
		return 0;
	}
	bool chance(uint32_t num, uint32_t den) { return draw(den) < num; }
};

// ---------------------------------------------------------------------------
// behaviour profile of a case: how often callbacks act

struct Profile {
	const char* name = "mixed";
	uint32_t cbActs = 30;        // % of phase callbacks that do something
	uint32_t guardActs = 35;     // % of guard callbacks that do something
	uint32_t lifeActs = 10;      // % of enter/exit/reenter callbacks that edit the plan
	uint32_t wChange = 10, wCancel = 10, wRedirect = 8, wCancelRedirect = 5, wReport = 6, wPlan = 6;
	uint32_t wUpdate = 30, wReact = 10, wQuery = 4, wExtChange = 12, wImmediate = 8, wExtReport = 6, wExtPlan = 10,
			 wSaveLoad = 5, wCopy = 3, wEnterExit = 4, wObserve = 2;
	bool pingPong = false;       // guards always redirect to (sid+1)%N
	bool relentless = false;     // ... every guard callback does, so a chain only ends at the substitution limit
	bool guardsOnly = false;     // only guards act (ENUM mode)
};

// ---------------------------------------------------------------------------

enum Policy : uint8_t { POL_CHOOSER, POL_PASSIVE, POL_HOSTILE, POL_VETO };   // VETO: every guard cancels, nothing else

// what a case exercised (decides whether it counts as non-trivial for a property)
enum CaseFlag : uint32_t {
	F_TRANSITION = 1u << 0, F_ROUND = 1u << 1, F_VETO = 1u << 2, F_REDIRECT = 1u << 3, F_LIMIT = 1u << 4, F_CYCLE = 1u << 5,
	F_GUARDVIEW = 1u << 6, F_PAYLOAD = 1u << 7, F_FIRE = 1u << 8, F_OUTCOME = 1u << 9, F_PLANFULL = 1u << 10, F_PLANEDIT = 1u << 11,
	F_REPLAY = 1u << 12, F_LOAD = 1u << 13, F_INJ = 1u << 14, F_LOG = 1u << 15, F_COPY = 1u << 16, F_REPORT = 1u << 17,
	F_LEFTOVER = 1u << 18, F_QUERY = 1u << 19, F_VETO_AFTER_SURVIVOR = 1u << 20
};

struct Violation {
	std::string prop, key, msg;
};

}
