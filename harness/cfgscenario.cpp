// E4 cfgmatrix scenario (C19): a feature-neutral program.  It uses only the base API
// (update / react / query / changeTo / changeWith / immediate forms / enter / exit, guards,
// contexts, payloads) so every FFSM2_ENABLE_* switch is "a feature this program does not use".
// It prints its complete observable trace; the driver compares the output across all switch
// combinations, language standards, compilers and header variants.  Must stay valid C++11.

#include VERIF_FFSM2_HEADER

#include <stdint.h>
#include <stdio.h>
#include <string.h>

namespace {

struct Lcg {
	uint64_t s;
	explicit Lcg(uint64_t seed) : s(seed * 6364136223846793005ull + 1442695040888963407ull) {}
	uint32_t next() { s = s * 6364136223846793005ull + 1442695040888963407ull; return static_cast<uint32_t>(s >> 33); }
	uint32_t below(uint32_t n) { return next() % n; }
};

struct Trace {
	uint64_t h;
	unsigned long lines;
	Trace() : h(1469598103934665603ull), lines(0) {}
	void add(const char* tag, unsigned a, unsigned b, unsigned c) {
		const unsigned char bytes[4] = { static_cast<unsigned char>(a), static_cast<unsigned char>(b), static_cast<unsigned char>(c), 0 };
		for (const char* p = tag; *p; ++p) { h ^= static_cast<unsigned char>(*p); h *= 1099511628211ull; }
		for (int i = 0; i < 3; ++i) { h ^= bytes[i]; h *= 1099511628211ull; }
		if (lines < 400) printf("%s %u %u %u\n", tag, a, b, c);
		++lines;
	}
};

struct Ctx {
	Trace* trace;
	Lcg* rng;
	unsigned salt;
};

struct Event { unsigned value; };

// ---------------------------------------------------------------------------
// machine 1: automatic activation, no payload, headless, value context, 5 states

typedef ffsm2::MachineT<ffsm2::Config::ContextT<Ctx>::SubstitutionLimitN<3> > M1;

struct A1; struct B1; struct C1; struct D1; struct E1;
typedef M1::PeerRoot<A1, B1, C1, D1, E1> FSM1;

template <unsigned ID>
struct S1 : FSM1::State {
	void entryGuard(GuardControl& c) {
		Ctx& x = c.context();
		x.trace->add("1eg", ID, c.stateId(), c.pendingTransition().destination);
		x.trace->add("1ego", c.pendingTransition().origin, c.currentTransition().origin, c.request().origin);
		const unsigned r = x.rng->below(8);
		if (r == 0) c.cancelPendingTransition();
		else if (r == 1) c.changeTo(static_cast<ffsm2::StateID>(x.rng->below(5)));
		else if (r == 2) { c.cancelPendingTransition(); c.changeTo(static_cast<ffsm2::StateID>(x.rng->below(5))); }
	}
	void exitGuard(GuardControl& c) {
		Ctx& x = c.context();
		x.trace->add("1xg", ID, c.stateId(), c.pendingTransition().destination);
		x.trace->add("1xgo", c.pendingTransition().origin, c.currentTransition().origin, c.request().origin);
		const unsigned r = x.rng->below(10);
		if (r == 0) c.cancelPendingTransition();
		else if (r == 1) c.changeTo(static_cast<ffsm2::StateID>(x.rng->below(5)));
	}
	void enter(PlanControl& c)   { c.context().trace->add("1en", ID, c.currentTransition().origin, c.currentTransition().destination); }
	void reenter(PlanControl& c) { c.context().trace->add("1re", ID, c.currentTransition().origin, c.currentTransition().destination); }
	void exit(PlanControl& c)    { c.context().trace->add("1ex", ID, c.currentTransition().origin, c.currentTransition().destination); }
	void act(const char* tag, FullControl& c) {
		Ctx& x = c.context();
		unsigned mask = 0;
		for (unsigned i = 0; i < 5; ++i) if (c.isActive(static_cast<ffsm2::StateID>(i))) mask |= 1u << i;
		x.trace->add(tag, ID, c.stateId(), mask);
		if (x.rng->below(6) == 0) c.changeTo(static_cast<ffsm2::StateID>(x.rng->below(5)));
	}
	void preUpdate(FullControl& c)  { act("1pu", c); }
	void update(FullControl& c)     { act("1up", c); }
	void postUpdate(FullControl& c) { act("1ou", c); }
	void preReact(const Event& e, FullControl& c)  { c.context().trace->add("1ev", e.value, 0, 0); act("1pr", c); }
	void react(const Event& e, FullControl& c)     { c.context().trace->add("1ev", e.value, 1, 0); act("1rc", c); }
	void postReact(const Event& e, FullControl& c) { c.context().trace->add("1ev", e.value, 2, 0); act("1or", c); }
	void query(Event& e, ConstControl& c) const {
		e.value += ID + 1;
		unsigned mask = 0;
		for (unsigned i = 0; i < 5; ++i) if (c.isActive(static_cast<ffsm2::StateID>(i))) mask |= 1u << i;
		c.context().trace->add("1qu", ID, c.stateId(), mask);
	}
};

struct A1 : S1<0> {}; struct B1 : S1<1> {}; struct C1 : S1<2> {}; struct D1 : S1<3> {}; struct E1 : S1<4> {};

// ---------------------------------------------------------------------------
// machine 2: manual activation, payload, root head, pointer context, 3 states

struct Pay { int32_t a; char b[8]; };

typedef ffsm2::MachineT<ffsm2::Config::ContextT<Ctx*>::ManualActivation::PayloadT<Pay>::SubstitutionLimitN<2> > M2;

struct H2; struct X2; struct Y2; struct Z2;
typedef M2::Root<H2, X2, Y2, Z2> FSM2;

static Pay mkPay(unsigned v) { Pay p; p.a = static_cast<int32_t>(v); memset(p.b, 0, sizeof p.b); memcpy(p.b, &v, sizeof v); return p; }
static unsigned payOf(const FSM2::Transition& t) { return t.payload() ? static_cast<unsigned>(t.payload()->a & 0xff) : 255u; }
template <typename TTransition> static unsigned payOf2(const TTransition& t) { return t.payload() ? static_cast<unsigned>(t.payload()->a & 0xff) : 255u; }

template <unsigned ID>
struct S2 : FSM2::State {
	void entryGuard(GuardControl& c) {
		Ctx& x = *c.context();
		x.trace->add("2eg", ID, c.pendingTransition().destination, payOf(c.pendingTransition()));
		x.trace->add("2ego", c.pendingTransition().origin, c.currentTransition().origin, c.request().origin);
		const unsigned r = x.rng->below(7);
		if (r == 0) c.cancelPendingTransition();
		else if (r == 1) { const ffsm2::StateID d = static_cast<ffsm2::StateID>(x.rng->below(3)); const Pay p = mkPay(x.rng->below(200)); c.changeWith(d, p); }
		else if (r == 2) c.changeTo(static_cast<ffsm2::StateID>(x.rng->below(3)));
	}
	void exitGuard(GuardControl& c) {
		Ctx& x = *c.context();
		x.trace->add("2xg", ID, c.pendingTransition().destination, payOf(c.pendingTransition()));
		if (x.rng->below(9) == 0) c.cancelPendingTransition();
	}
	void enter(PlanControl& c)   { c.context()->trace->add("2en", ID, c.currentTransition().destination, payOf(c.currentTransition())); c.context()->trace->add("2eno", c.currentTransition().origin, 0, 0); }
	void reenter(PlanControl& c) { c.context()->trace->add("2re", ID, c.currentTransition().destination, payOf(c.currentTransition())); }
	void exit(PlanControl& c)    { c.context()->trace->add("2ex", ID, c.currentTransition().destination, payOf(c.currentTransition())); }
	void act(const char* tag, FullControl& c) {
		Ctx& x = *c.context();
		x.trace->add(tag, ID, c.stateId(), c.request().destination);
		const unsigned r = x.rng->below(8);
		if (r == 0) c.changeTo(static_cast<ffsm2::StateID>(x.rng->below(3)));
		else if (r == 1) { const ffsm2::StateID d = static_cast<ffsm2::StateID>(x.rng->below(3)); const Pay p = mkPay(x.rng->below(200)); c.changeWith(d, p); }
	}
	void preUpdate(FullControl& c)  { act("2pu", c); }
	void update(FullControl& c)     { act("2up", c); }
	void postUpdate(FullControl& c) { act("2ou", c); }
	void react(const Event& e, FullControl& c) { c.context()->trace->add("2ev", e.value, 1, 0); act("2rc", c); }
	void query(Event& e, ConstControl& c) const { e.value += 7; c.context()->trace->add("2qu", ID, c.stateId(), c.request().destination); }
};

struct H2 : S2<9> {}; struct X2 : S2<0> {}; struct Y2 : S2<1> {}; struct Z2 : S2<2> {};


// ---------------------------------------------------------------------------
// sections that USE one optional feature each (compiled with -DSCN_USE_<feature>; the driver then
// compares across all combinations of the OTHER switches)

#ifdef SCN_USE_PLANS
typedef ffsm2::MachineT<ffsm2::Config::ContextT<Ctx*> > M3;
struct P0; struct P1; struct P2; struct P3; struct P4; struct P5;
typedef M3::PeerRoot<P0, P1, P2, P3, P4, P5> FSM3;
template <unsigned ID>
struct S3 : FSM3::State {
	void enter(PlanControl& c) { c.context()->trace->add("3en", ID, c.stateId(), 0); }
	void update(FullControl& c) { c.context()->trace->add("3up", ID, c.stateId(), 0); if (c.context()->rng->below(4) != 0) c.succeed(); }
	void exit(PlanControl& c) { c.context()->trace->add("3ex", ID, c.stateId(), 0); }
};
struct P0 : S3<0> {}; struct P1 : S3<1> {}; struct P2 : S3<2> {}; struct P3 : S3<3> {}; struct P4 : S3<4> {}; struct P5 : S3<5> {};

typedef ffsm2::MachineT<ffsm2::Config::ContextT<Ctx*>::TaskCapacityN<2>::PayloadT<Pay> > M4;
struct H4; struct Q0; struct Q1; struct Q2;
typedef M4::Root<H4, Q0, Q1, Q2> FSM4;
struct H4 : FSM4::State {
	void planSucceeded(FullControl& c) { c.context()->trace->add("4ps", 0, 0, 0); c.changeTo<Q0>(); }
	void planFailed(FullControl& c) { c.context()->trace->add("4pf", 0, 0, 0); }
};
template <unsigned ID>
struct S4 : FSM4::State {
	void enter(PlanControl& c) { c.context()->trace->add("4en", ID, c.currentTransition().destination, c.currentTransition().payload() ? static_cast<unsigned>(c.currentTransition().payload()->a & 0xff) : 255u); }
	void update(FullControl& c) { const unsigned r = c.context()->rng->below(5); if (r == 0) c.fail(); else if (r < 4) c.succeed(); }
};
struct Q0 : S4<0> {}; struct Q1 : S4<1> {}; struct Q2 : S4<2> {};

// manual activation + plans: re-activation, reports with and without tasks, plan edits from callbacks
typedef ffsm2::MachineT<ffsm2::Config::ContextT<Ctx*>::ManualActivation::SubstitutionLimitN<2> > M5;
struct H5; struct R0; struct R1; struct R2; struct R3;
typedef M5::Root<H5, R0, R1, R2, R3> FSM5;
struct H5 : FSM5::State {
	void enter(PlanControl& c) { c.context()->trace->add("5he", 0, 0, 0); }
	void exit(PlanControl& c) { c.context()->trace->add("5hx", 0, 0, 0); }
	void planSucceeded(FullControl& c) { c.context()->trace->add("5ps", c.stateId(), 0, 0); if (c.context()->rng->below(3) == 0) { const ffsm2::StateID o = static_cast<ffsm2::StateID>(c.context()->rng->below(4)); const ffsm2::StateID d = static_cast<ffsm2::StateID>(c.context()->rng->below(4)); c.plan().change(o, d); } }
	void planFailed(FullControl& c) { c.context()->trace->add("5pf", c.stateId(), 0, 0); }
};
template <unsigned ID>
struct S5 : FSM5::State {
	template <typename TControl> static unsigned planLen(TControl& c) { unsigned n = 0; for (auto it = c.plan().begin(); it; ++it) ++n; return n; }
	void entryGuard(GuardControl& c) {
		Ctx& x = *c.context();
		const GuardControl& cc = c;
		x.trace->add("5eg", ID, c.pendingTransition().destination, c.pendingTransition().origin);
		x.trace->add("5Gpl", planLen(c), planLen(cc), static_cast<bool>(cc.plan()) ? 1 : 0);
		if (x.rng->below(9) == 0) c.cancelPendingTransition();
	}
	void exitGuard(GuardControl& c) { c.context()->trace->add("5xg", ID, planLen(c), 0); if (c.context()->rng->below(11) == 0) c.succeed(); }
	void react(const Event&, FullControl& c) { const FullControl& cc = c; c.context()->trace->add("5Fpl", ID, planLen(c), planLen(cc)); if (c.context()->rng->below(4) == 0) c.fail<R1>(); else if (c.context()->rng->below(4) == 0) c.succeed<R2>(); }
	void exit(PlanControl& c) { const PlanControl& cc = c; c.context()->trace->add("5ex", ID, planLen(c), planLen(cc)); }
	void enter(PlanControl& c) {
		Ctx& x = *c.context();
		x.trace->add("5en", ID, c.currentTransition().destination, c.currentTransition().origin);
		if (x.rng->below(5) == 0) c.plan().change(static_cast<ffsm2::StateID>(ID), static_cast<ffsm2::StateID>(x.rng->below(4)));
	}
	void reenter(PlanControl& c) { c.context()->trace->add("5re", ID, 0, 0); }
	void update(FullControl& c) {
		Ctx& x = *c.context();
		x.trace->add("5up", ID, c.stateId(), 0);
		const unsigned r = x.rng->below(10);
		if (r < 3) c.succeed();
		else if (r == 3) c.fail();
		else if (r == 4) { const ffsm2::StateID o = static_cast<ffsm2::StateID>(x.rng->below(4)); const ffsm2::StateID d = static_cast<ffsm2::StateID>(x.rng->below(4)); c.plan().change(o, d); }
		else if (r == 5) c.changeTo(static_cast<ffsm2::StateID>(x.rng->below(4)));
		else if (r == 6) { unsigned n = 0; for (auto it = c.plan().begin(); it; ++it, ++n) if (n == 1) it.remove(); }
	}
};
struct R0 : S5<0> {}; struct R1 : S5<1> {}; struct R2 : S5<2> {}; struct R3 : S5<3> {};
#endif

#ifdef SCN_USE_HISTORY
// reads the history through every control flavour a callback can be handed
typedef ffsm2::MachineT<ffsm2::Config::ContextT<Ctx*>::ManualActivation::PayloadT<Pay> > M7;
struct H7; struct V0; struct V1; struct V2;
typedef M7::Root<H7, V0, V1, V2> FSM7;
template <unsigned ID>
struct S7 : FSM7::State {
	static unsigned dest(const FSM7::Transition& t) { return t ? t.destination : 254u; }
	static unsigned pay(const FSM7::Transition& t) { return t.payload() ? static_cast<unsigned>(t.payload()->a & 0xff) : 255u; }
	void entryGuard(GuardControl& c) { c.context()->trace->add("7Geg", ID, dest(c.previousTransitions()), pay(c.previousTransitions())); }
	void exitGuard(GuardControl& c) { c.context()->trace->add("7Gxg", ID, dest(c.previousTransitions()), c.previousTransitions().origin); }
	void enter(PlanControl& c) { c.context()->trace->add("7Pen", ID, dest(c.previousTransitions()), dest(c.currentTransition())); }
	void reenter(PlanControl& c) { c.context()->trace->add("7Pre", ID, dest(c.previousTransitions()), pay(c.currentTransition())); }
	void exit(PlanControl& c) { c.context()->trace->add("7Pex", ID, dest(c.previousTransitions()), 0); }
	void update(FullControl& c) {
		c.context()->trace->add("7Fup", ID, dest(c.previousTransitions()), pay(c.previousTransitions()));
		if (c.context()->rng->below(3) == 0) { const ffsm2::StateID d = static_cast<ffsm2::StateID>(c.context()->rng->below(3)); const Pay p = mkPay(c.context()->rng->below(200)); c.changeWith(d, p); }
	}
	void react(const Event&, FullControl& c) { c.context()->trace->add("7Frc", ID, dest(c.previousTransitions()), c.previousTransitions().origin); }
	void query(Event& e, ConstControl& c) const { e.value += dest(c.previousTransitions()); c.context()->trace->add("7Cqu", ID, dest(c.previousTransitions()), pay(c.previousTransitions())); }
};
struct H7 : S7<9> {}; struct V0 : S7<0> {}; struct V1 : S7<1> {}; struct V2 : S7<2> {};
#endif

#ifdef SCN_USE_LOG
struct CountingLogger : FSM1::Logger {
	Trace* trace;
	unsigned long transitions, cancels;
	explicit CountingLogger(Trace* t) : trace(t), transitions(0), cancels(0) {}
	typedef FSM1::Logger::Context LC;
	void recordTransition(const LC&, const ffsm2::StateID origin, const ffsm2::StateID target) { ++transitions; trace->add("Lt", origin, target, 0); }
	void recordCancelledPending(const LC&, const ffsm2::StateID origin) { ++cancels; trace->add("Lc", origin, 0, 0); }
};
#endif

static void observe1(Trace& t, const FSM1::Instance& m) {
	unsigned mask = 0;
	for (unsigned i = 0; i < 5; ++i) if (m.isActive(static_cast<ffsm2::StateID>(i))) mask |= 1u << i;
	t.add("1ob", m.activeStateId(), mask, m.isActive<C1>() ? 1 : 0);
}

static void observe2(Trace& t, const FSM2::Instance& m) {
	unsigned mask = 0;
	for (unsigned i = 0; i < 3; ++i) if (m.isActive(static_cast<ffsm2::StateID>(i))) mask |= 1u << i;
	t.add("2ob", m.activeStateId(), mask, m.isActive() ? 1 : 0);
}

}

#include <stdlib.h>

int main(int argc, char** argv) {
	const unsigned long scenarioSeed = argc > 1 ? strtoul(argv[1], 0, 10) : 0;
	static_assert(FSM1::stateId<A1>() == 0 && FSM1::stateId<E1>() == 4, "ids follow declaration order");
	static_assert(FSM2::stateId<X2>() == 0 && FSM2::stateId<Z2>() == 2, "ids follow declaration order");

	Trace trace;
	Lcg cbRng(12345 + scenarioSeed * 7919), drv(777 + scenarioSeed * 104729);

	// the public, feature-neutral name helper: every enumerator of ffsm2::Method has the same name under every switch
	for (unsigned k = 0; k < static_cast<unsigned>(ffsm2::Method::COUNT); ++k) {
		const char* const name = ffsm2::methodName(static_cast<ffsm2::Method>(k));
		unsigned sum = 0, len = 0;
		if (name) for (const char* q = name; *q; ++q) { sum = sum * 31 + static_cast<unsigned char>(*q); ++len; }
		trace.add("mnm", k, name ? len : 255, sum);
	}

	{
		Ctx ctx = { &trace, &cbRng, 1 };
		FSM1::Instance m(ctx);
		observe1(trace, m);
		for (unsigned step = 0; step < 1500; ++step) {
			const unsigned op = drv.below(10);
			if (op < 4) m.update();
			else if (op < 6) { Event e = { drv.below(100) }; m.react(e); }
			else if (op == 6) { Event e = { 0 }; m.query(e); trace.add("1qr", e.value, 0, 0); }
			else if (op < 9) m.changeTo(static_cast<ffsm2::StateID>(drv.below(5)));
			else m.immediateChangeTo(static_cast<ffsm2::StateID>(drv.below(5)));
			observe1(trace, m);
		}
		const FSM1::Instance copy(m);
		observe1(trace, copy);
		trace.add("1acc", &m.access<C1>() != &copy.access<C1>(), 0, 0);
	}
	{
		Ctx ctx = { &trace, &cbRng, 2 };
		FSM2::Instance m(&ctx);
		observe2(trace, m);
		for (unsigned round = 0; round < 6; ++round) {
			m.enter();
			observe2(trace, m);
			for (unsigned step = 0; step < 250; ++step) {
				const unsigned op = drv.below(12);
				if (op < 4) m.update();
				else if (op < 6) { Event e = { drv.below(100) }; m.react(e); }
				else if (op == 6) { Event e = { 0 }; m.query(e); trace.add("2qr", e.value, 0, 0); }
				else if (op == 7) m.changeTo(static_cast<ffsm2::StateID>(drv.below(3)));
				else if (op == 8) { const ffsm2::StateID d = static_cast<ffsm2::StateID>(drv.below(3)); const Pay p = mkPay(drv.below(200)); m.changeWith(d, p); }
				else if (op == 9) m.immediateChangeTo(static_cast<ffsm2::StateID>(drv.below(3)));
				else if (op == 10) { const ffsm2::StateID d = static_cast<ffsm2::StateID>(drv.below(3)); const Pay p = mkPay(drv.below(200)); m.immediateChangeWith(d, p); }
				else m.changeTo<Y2>();
				observe2(trace, m);
			}
			m.exit();
			observe2(trace, m);
		}
	}

#ifdef SCN_USE_PLANS
	{
		Ctx ctx = { &trace, &cbRng, 3 };
		FSM3::Instance m(&ctx);
		for (unsigned round = 0; round < 40; ++round) {
			unsigned accepted = 0;
			// a chain through all states, then keep appending until the plan refuses
			for (unsigned i = 0; i < 5; ++i) accepted += m.plan().change(static_cast<ffsm2::StateID>(i), static_cast<ffsm2::StateID>(i + 1)) ? 1 : 0;
			for (unsigned i = 0; i < 12 && m.plan().change(5, 0); ++i) ++accepted;
			trace.add("3pl", accepted, 0, 0);
			unsigned n = 0;
			for (FSM3::Instance::CPlan::Iterator it(static_cast<const FSM3::Instance&>(m).plan()); it; ++it) { trace.add("3tk", it->origin, it->destination, n); ++n; }
			for (unsigned step = 0; step < 10; ++step) { m.update(); trace.add("3ob", m.activeStateId(), 0, 0); }
			m.plan().clear();
			m.immediateChangeTo(static_cast<ffsm2::StateID>(drv.below(6)));
		}
	}
	{
		Ctx ctx = { &trace, &cbRng, 4 };
		FSM4::Instance m(&ctx);
		for (unsigned round = 0; round < 120; ++round) {
			const ffsm2::StateID d1 = static_cast<ffsm2::StateID>(drv.below(3));
			const Pay p1 = mkPay(drv.below(200));
			const bool a = m.plan().changeWith(m.activeStateId(), d1, p1);
			const ffsm2::StateID o2 = static_cast<ffsm2::StateID>(drv.below(3));
			const ffsm2::StateID d2 = static_cast<ffsm2::StateID>(drv.below(3));
			const bool b = m.plan().change(o2, d2);
			const bool c = m.plan().change(0, 1);
			trace.add("4pl", a, b, c);
			if (drv.below(4) == 0) m.succeed(m.activeStateId());
			if (drv.below(9) == 0) m.fail(static_cast<ffsm2::StateID>(drv.below(3)));
			for (unsigned step = 0; step < 3; ++step) { m.update(); trace.add("4ob", m.activeStateId(), static_cast<bool>(static_cast<const FSM4::Instance&>(m).plan()) ? 1 : 0, 0); }
		}
	}
	{
		Ctx ctx = { &trace, &cbRng, 5 };
		FSM5::Instance m(&ctx);
		for (unsigned step = 0; step < 3000; ++step) {
			const unsigned op = drv.below(16);
			if (!m.isActive()) { if (op < 6) { m.enter(); trace.add("5on", m.activeStateId(), 0, 0); } continue; }
			if (op < 6) m.update();
			else if (op == 6) { Event e = { drv.below(100) }; m.react(e); }
			else if (op == 7) m.changeTo(static_cast<ffsm2::StateID>(drv.below(4)));
			else if (op == 8) m.immediateChangeTo(static_cast<ffsm2::StateID>(drv.below(4)));
			else if (op == 9) { const ffsm2::StateID o = static_cast<ffsm2::StateID>(drv.below(4)); const ffsm2::StateID d = static_cast<ffsm2::StateID>(drv.below(4)); trace.add("5pl", o, d, m.plan().change(o, d) ? 1 : 0); }
			else if (op == 10) m.succeed(drv.below(2) ? m.activeStateId() : static_cast<ffsm2::StateID>(drv.below(4)));
			else if (op == 11) m.fail(drv.below(2) ? m.activeStateId() : static_cast<ffsm2::StateID>(drv.below(4)));
			else if (op == 12) { if (drv.below(3) == 0) m.plan().clear(); }
			else if (op == 13) { if (drv.below(2) == 0) { m.exit(); trace.add("5of", 0, 0, 0); } }
			else m.update();
			unsigned n = 0;
			for (FSM5::Instance::CPlan::Iterator it(static_cast<const FSM5::Instance&>(m).plan()); it; ++it) { trace.add("5tk", it->origin, it->destination, n); ++n; }
			trace.add("5ob", m.isActive() ? m.activeStateId() : 254, n, 0);
		}
		if (m.isActive()) m.exit();
	}
#endif
#ifdef SCN_USE_SERIALIZATION
	{
		Ctx ctx = { &trace, &cbRng, 5 };
		FSM1::Instance a(ctx), b(ctx);
		for (unsigned round = 0; round < 60; ++round) {
			a.immediateChangeTo(static_cast<ffsm2::StateID>(drv.below(5)));
			b.immediateChangeTo(static_cast<ffsm2::StateID>(drv.below(5)));
			FSM1::Instance::SerialBuffer buf;
			a.save(buf);
			for (unsigned i = 0; i < sizeof(buf); ++i) trace.add("5by", i, reinterpret_cast<const unsigned char*>(&buf)[i], 0);
			b.load(buf);
			trace.add("5ld", a.activeStateId(), b.activeStateId(), 0);
		}
		Ctx ctx2 = { &trace, &cbRng, 6 };
		FSM2::Instance c(&ctx2), d(&ctx2);
		for (unsigned round = 0; round < 60; ++round) {
			if (drv.below(3) == 0) { if (c.isActive()) c.exit(); } else { if (!c.isActive()) c.enter(); c.immediateChangeTo(static_cast<ffsm2::StateID>(drv.below(3))); }
			if (drv.below(3) == 0) { if (d.isActive()) d.exit(); } else if (!d.isActive()) d.enter();
			FSM2::Instance::SerialBuffer buf;
			c.save(buf);
			for (unsigned i = 0; i < sizeof(buf); ++i) trace.add("6by", i, reinterpret_cast<const unsigned char*>(&buf)[i], 0);
			d.load(buf);
			trace.add("6ld", c.activeStateId(), d.activeStateId(), d.isActive() ? 1 : 0);
		}
		if (c.isActive()) c.exit();
		if (d.isActive()) d.exit();
	}
#endif
#ifdef SCN_USE_HISTORY
	{
		Ctx ctx = { &trace, &cbRng, 7 };
		FSM2::Instance m(&ctx), replica(&ctx);
		for (unsigned round = 0; round < 12; ++round) {
			// the authority and its replica are re-activated again and again
			m.enter();
			{
				const FSM2::Transition& first = m.previousTransition();
				trace.add("7on", first ? first.destination : 254, m.activeStateId(), 0);
				replica.replayEnter(m.activeStateId());
				trace.add("7rp", m.activeStateId(), replica.isActive() ? replica.activeStateId() : 254, 1);
			}
			const unsigned steps = 10 + drv.below(60);
			for (unsigned step = 0; step < steps; ++step) {
				const unsigned op = drv.below(4);
				if (op == 0) m.update();
				else if (op == 1) m.changeTo(static_cast<ffsm2::StateID>(drv.below(3)));
				else if (op == 2) { const ffsm2::StateID d = static_cast<ffsm2::StateID>(drv.below(3)); const Pay p = mkPay(drv.below(200)); m.immediateChangeWith(d, p); }
				else { Event e = { 3 }; m.react(e); }
				const FSM2::Transition& pt = m.previousTransition();
				trace.add("7pt", pt ? pt.destination : 254, pt.origin, payOf(pt));
				if (op != 1 && pt) replica.replayTransition(pt.destination);
				trace.add("7rp", m.activeStateId(), replica.activeStateId(), 0);
				const FSM2::Transition& rt = replica.previousTransition();
				trace.add("7rt", rt ? rt.destination : 254, rt.origin, 0);
			}
			replica.exit();
			m.exit();
			trace.add("7of", m.previousTransition() ? 1 : 0, replica.previousTransition() ? 1 : 0, 0);
		}
	}
#endif
#ifdef SCN_USE_HISTORY
	{
		Ctx ctx = { &trace, &cbRng, 9 };
		FSM7::Instance m(&ctx);
		for (unsigned round = 0; round < 4; ++round) {
			m.enter();
			for (unsigned step = 0; step < 150; ++step) {
				const unsigned op = drv.below(6);
				if (op < 2) m.update();
				else if (op == 2) { Event e = { 1 }; m.react(e); }
				else if (op == 3) { Event e = { 0 }; static_cast<const FSM7::Instance&>(m).query(e); trace.add("7qr", e.value, 0, 0); }
				else if (op == 4) m.immediateChangeTo(static_cast<ffsm2::StateID>(drv.below(3)));
				else { const ffsm2::StateID d = static_cast<ffsm2::StateID>(drv.below(3)); const Pay p = mkPay(drv.below(200)); m.changeWith(d, p); }
				const FSM7::Transition& pt = m.previousTransition();
				trace.add("7ob", m.activeStateId(), pt ? pt.destination : 254, payOf2(pt));
			}
			m.exit();
		}
	}
#endif
#ifdef SCN_USE_LOG
	{
		Ctx ctx = { &trace, &cbRng, 8 };
		CountingLogger logger(&trace);
		FSM1::Instance m(ctx, &logger);
		for (unsigned step = 0; step < 300; ++step) {
			const unsigned op = drv.below(5);
			if (op < 2) m.update();
			else if (op == 2) { Event e = { drv.below(100) }; m.react(e); }
			else if (op == 3) m.changeTo(static_cast<ffsm2::StateID>(drv.below(5)));
			else m.attachLogger(drv.below(2) ? &logger : 0);
			observe1(trace, m);
		}
		trace.add("8lg", static_cast<unsigned>(logger.transitions & 0xff), static_cast<unsigned>(logger.cancels & 0xff), 0);
	}
#endif
	printf("DIGEST %016llx lines=%lu\n", static_cast<unsigned long long>(trace.h), trace.lines);
	return 0;
}
