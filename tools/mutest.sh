#!/bin/bash
# tools/mutest.sh <seeded-dir> [props...]
# Validates one seeded defect (<seeded-dir>/patch.diff, demo.cpp) and runs the given quick checks
# (default: all) against a scratch worktree of /repo with the patch applied.  /repo itself, the build
# cache of the real checks and /verif/evidence are not touched.
set -u
dir=$(realpath "$1"); shift
props=${*:-"C01 C02 C03 C04 C05 C06 C07 C08 C09 C10 C11 C12 C13 C14 C15 C16 C17 C18 C19 C20"}
id=$(basename "$dir")
wt=/var/tmp/ffsm2-verif.mut.$id.$$
scr=/var/tmp/ffsm2-verif.scr.$id.$$
trap 'git -C /repo worktree remove --force "$wt" >/dev/null 2>&1; rm -rf "$scr" "$wt"' EXIT
git -C /repo worktree add -q --detach "$wt" HEAD || exit 2
mkdir -p "$scr"
# 1. demo passes on the clean tree
if [ -f "$dir/demo.cpp" ]; then
  g++ -std=c++14 -I"$wt/include" "$dir/demo.cpp" -o "$scr/demo_clean" 2>"$scr/demo_clean.err" && "$scr/demo_clean" >/dev/null 2>&1; echo "demo on clean tree: rc=$?"
fi
git -C "$wt" apply "$dir/patch.diff" || { echo "PATCH DOES NOT APPLY"; exit 2; }
# 2. amalgam consistent, compiles, test-suite passes
( cd "$wt/tools" && python3 join.py ) ; if git -C "$wt" diff --quiet -- include; then :; fi
( cd "$wt" && cp include/ffsm2/machine.hpp "$scr/h1" && git apply -R "$dir/patch.diff" 2>/dev/null; git checkout -q -- . ; git apply "$dir/patch.diff"; cmp -s include/ffsm2/machine.hpp "$scr/h1" && echo "amalgam: regenerated == patched header" || echo "amalgam: regenerated header DIFFERS from patched header" )
( cd "$wt" && cmake -S . -B _build -G Ninja -DCMAKE_BUILD_TYPE=RelWithDebInfo -DCMAKE_CXX_FLAGS=-Wno-error >/dev/null 2>&1 && cmake --build _build -j8 >"$scr/build.log" 2>&1 && ./_build/ffsm2_test 2>&1 | tail -1 ) || { echo "TEST-SUITE FAILS WITH PATCH"; tail -5 "$scr/build.log"; }
if [ -f "$dir/demo.cpp" ]; then
  g++ -std=c++14 -I"$wt/include" "$dir/demo.cpp" -o "$scr/demo_mut" 2>"$scr/demo_mut.err" && "$scr/demo_mut" >/dev/null 2>&1; echo "demo on patched tree: rc=$?"
fi
rm -rf "$wt/_build"
# 3. the checks
export VERIF_REPO="$wt" VERIF_BUILD_DIR="$scr/build" VERIF_OUT_DIR="$scr/out" VERIF_EVIDENCE_DIR="$scr/evidence"
for p in $props; do
  out=$(cd /verif && ./vcheck $p --tier ${MUT_TIER:-quick} 2>&1); rc=$?
  echo "$p rc=$rc $(echo "$out" | grep -E 'key:' | head -4 | tr '\n' ' ' | cut -c1-300)"
done
