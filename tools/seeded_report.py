#!/usr/bin/env python3
# Collects the mutest logs (/var/tmp/vb/mut-<id>.log) into seeded/<id>/meta.json ("harness_verification") and seeded/RESULTS.md
import glob, json, os, re, sys
LOGDIR = sys.argv[1] if len(sys.argv) > 1 else "/var/tmp/vb"
root = os.path.join(os.path.dirname(os.path.dirname(os.path.abspath(__file__))), "seeded")
rows = []
for d in sorted(glob.glob(os.path.join(root, "C*-*"))):
    sid = os.path.basename(d)
    logf = os.path.join(LOGDIR, "mut-%s.log" % sid)
    mp = os.path.join(d, "meta.json")
    try:
        meta = json.load(open(mp))
    except Exception:
        meta = {}
    hv = meta.get("harness_verification", {})
    if os.path.exists(logf):
        text = open(logf, errors="replace").read()
        hv = {
            "demo_on_clean_tree_rc": (re.search(r"demo on clean tree: rc=(\d+)", text) or [None, None])[1],
            "demo_on_patched_tree_rc": (re.search(r"demo on patched tree: rc=(\d+)", text) or [None, None])[1],
            "test_suite_with_patch": "passes" if "Status: SUCCESS" in text else "FAILS",
            "amalgam_regenerates_identically": "regenerated == patched header" in text,
            "checks": {},
            "command": "tools/mutest.sh seeded/%s <checks>  (scratch worktree of /repo + patch, quick tier, VERIF_SEED=1)" % sid,
        }
        for m in re.finditer(r"^(C\d\d) rc=(\d+)(.*)$", text, re.M):
            keys = re.findall(r"key: (\S+)", m.group(3))
            hv["checks"][m.group(1)] = {"exit": int(m.group(2)), "violation_keys": keys}
        meta["harness_verification"] = hv
        meta.setdefault("property", sid.split("-")[0])
        json.dump(meta, open(mp, "w"), indent=1)
    rows.append((sid, meta, hv))
with open(os.path.join(root, "RESULTS.md"), "w") as fh:
    fh.write("# Seeded defects and which checks catch them\n\n"
             "Each directory holds `patch.diff` (against /repo HEAD at the time it was written), the author's demonstration and `meta.json`.\n"
             "Authors were fresh sub-agents that saw only the property text and a scratch worktree.  `tools/mutest.sh <dir> [checks]` re-validates\n"
             "(test-suite passes with the patch, demo passes on the clean tree and fails on the patched one, amalgam consistent) and runs the quick checks\n"
             "against a scratch worktree with the patch applied.  exit 1 = caught.\n\n"
             "| id | summary | needs to manifest | demo clean/patched | checks run (exit; first keys) |\n|---|---|---|---|---|\n")
    for sid, meta, hv in rows:
        checks = "; ".join("%s: %s %s" % (c, "caught" if v["exit"] == 1 else ("MISSED" if v["exit"] == 0 else "exit %d" % v["exit"]), ", ".join(v["violation_keys"][:2]))
                           for c, v in sorted(hv.get("checks", {}).items()))
        if meta.get("obsolete"):
            checks = "obsolete: " + meta["obsolete"]
        if meta.get("not_caught_note"):
            checks += " - " + meta["not_caught_note"]
        fh.write("| %s | %s | %s | %s/%s | %s |\n" % (sid, str(meta.get("summary", ""))[:160].replace("|", "/").replace("\n", " "),
                                                   str(meta.get("needs_to_manifest", ""))[:160].replace("|", "/").replace("\n", " "),
                                                   hv.get("demo_on_clean_tree_rc"), hv.get("demo_on_patched_tree_rc"), checks))
print("rows", len(rows))
