#!/bin/bash
# usage: tools/soak.sh <tier> <seed>...   runs every check with each seed, prints one line per run
tier=$1; shift
for seed in "$@"; do
  for p in C01 C02 C03 C04 C05 C06 C07 C08 C09 C10 C11 C12 C13 C14 C15 C16 C17 C18 C19 C20; do
    out=$(VERIF_SEED=$seed ./vcheck $p --tier $tier 2>&1); rc=$?
    echo "seed=$seed $p rc=$rc $(echo "$out" | grep -E '^OK|^VIOLATION|key:|HARNESS|INCONCLUSIVE|KNOWN' | head -6 | tr '\n' ' ' | cut -c1-400)"
  done
done
