#!/bin/bash
# tools/collect.sh <prop> <suffix> [checks...]  : take a sub-agent's deliverables out of its worktree and test them
p=$1; sfx=$2; shift 2
d=/verif/seeded/$p-$sfx
mkdir -p $d && cp /tmp/mut/$p/_mutant/patch.diff /tmp/mut/$p/_mutant/demo.* /tmp/mut/$p/_mutant/meta.json $d/ 2>/dev/null
rm -f $d/demo   # built binaries are not kept
git -C /repo worktree remove --force /tmp/mut/$p
/verif/tools/mutest.sh $d ${*:-$p} > /var/tmp/vb/mut-$p-$sfx.log 2>&1
echo "=== $p-$sfx"; tail -${TAILN:-4} /var/tmp/vb/mut-$p-$sfx.log | cut -c1-450
