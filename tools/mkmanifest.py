#!/usr/bin/env python3
# Regenerates /verif/MANIFEST.json from the table below (run after adding a check).
import json
import os
import subprocess

VERIF = os.path.dirname(os.path.dirname(os.path.abspath(__file__)))

# property -> (engine, level text, level note, technique)
CHECKS = {
    "C10": ("contmon+fsmmon",
            "TaskListT driven through its public interface against a reference slot model after every operation "
            "(21 capacities x 3 payload kinds, drain-and-refill leak probes); held on the executions counted in the evidence.",
            "trusts the reference model in harness/contmon.cpp and the compiler",
            "runtime monitoring: reference-model comparison after every operation on seeded random histories"),
    "C13": ("contmon+widemon",
            "Bit streams of every capacity 1..255 compared bit-for-bit with a reference bit vector after every write and on "
            "read-back; every (start offset, width, 0/ones/walking-bit) single-field case enumerated; bitWidth compared with "
            "clz on 2^24 sampled arguments (quick) / all 2^32 arguments (thorough); streams opened at arbitrary cursors and reader/writer interleaved on one buffer; "
            "last clause: every state index of machines of 1..255 states saved with the width the machine derived and loaded back.",
            "trusts the reference bit vector and __builtin_clz",
            "runtime monitoring: reference-model comparison; exhaustive enumeration of single-field cases and bitWidth arguments"),
    "C19": ("cfgmatrix",
            "Every one of the 2^8 switch subsets (+ENABLE_ALL) is compiled and run on a feature-neutral scenario and the complete "
            "output compared; quick: all 257 subsets with g++/c++11/shipped header + corners + a seeded 64-point sample of the "
            "other (std, compiler, header) combinations; thorough: the full 257 x 4 x 2 x 2 space. join.py output is byte-compared "
            "with the shipped header.",
            "only g++ 12.2 and clang++ 14 are available (no MSVC); 'does not use a feature' is represented by one scenario program",
            "runtime monitoring: differential execution across build configurations (compiler exit status + trace digest)"),
    "C20": ("contmon",
            "BitArrayT/StaticArrayT/DynamicArrayT of every capacity 1..255 compared with set/vector models after every operation "
            "on seeded random histories (including set-all, and-assign, drain-to-empty).",
            "trusts the models in harness/contmon.cpp",
            "runtime monitoring: reference-model comparison after every operation"),
}

ENGINES = [
    {"name": "contmon", "path": "harness/contmon.cpp", "serves_properties": ["C10", "C13", "C20"],
     "kind_free_text": "reference-model monitors for containers, bit streams, task list"},
    {"name": "cfgmatrix", "path": "vlib/cfgmatrix.py + harness/cfgscenario.cpp", "serves_properties": ["C19"],
     "kind_free_text": "differential build-and-run over feature switches, standards, compilers, header variants"},
]

FSM_NOTE = ("trusts the harness's own shadow model (harness/fsm_track.hpp) which is built only from the harness's actions and from what callbacks, "
            "control objects, logger records and public observers show; exploration is random/enumerative, so behaviours needing longer or rarer "
            "histories than generated are not seen; behavioural monitors run on machines of up to 32 states (plan firing, dispatch and serialization also on 4..255 states in the wide engines)")
FSM_TECH = "runtime monitoring: online trace monitors inside instrumented user callbacks + per-call oracles at API boundaries, on seeded random histories"

def fsm(text, tech=FSM_TECH, note=FSM_NOTE):
    return ("fsmmon", text, note, tech)

CHECKS.update({
    "C01": fsm("enter/exit pairing automaton per instance, advanced on every lifecycle delivery and compared with activeStateId()/isActive(i)/isActive() inside "
               "every callback and after every API call (update, react, query, change*, immediate*, plan edits, reports, save/load, replay, enter/exit, copy, "
               "destruction, type-form and id-form calls) over 36 machine configurations (1..32 states, limits 1..255, capacities 1..254, five context kinds, seven payload kinds, alias orders, state classes defining all/none/some callbacks, virtual injections, const callbacks), with relocation by move construction and copies snapshotted inside callbacks; the configured activation mode is checked for all 120 alias orders; held on the histories counted in the evidence."),
    "C02": fsm("per processing call: the request each guard round evaluates must be the latest one issued (harness-tracked), the applied exit/enter/reenter must be "
               "exactly that of the last surviving round, requests change nothing when made (full observer comparison), nothing is applied outside processing points."),
    "C03": fsm("structure of every guard round (exit guard of the active state, then entry guard of the destination unless cancelled; pendingTransition = request under "
               "evaluation; no enter/exit between guards; vetoed destinations never entered; fallback to the last survivor; no guards in load/replay) on random "
               "histories plus a complete enumeration of guard decisions for N=3, L<=2 (quick) / L<=3 and N=2,L=4 (thorough).",
               tech="runtime monitoring: online trace monitors + bounded-exhaustive enumeration of guard decisions executed on the real code"),
    "C04": fsm("guard rounds per call counted online (violation at round L+1 / activation round L+2, so a runaway loop is reported, not timed out); final state must be "
               "chosen among survivors; a request left over at the limit must be the pending transition of the first round of the next processing call; same "
               "enumeration as C03 plus ping-pong guard profiles.",
               tech="runtime monitoring: online round counters + bounded-exhaustive enumeration of guard decisions executed on the real code"),
    "C05": fsm("exact phase sequence of update()/react() (root/state order, once each, active state only, before any guard/exit/enter), address identity of the event "
               "object in every react/query callback, query() delivers to root and active state once and leaves all observers and the serialized form unchanged."),
    "C06": fsm("inside every callback: stateId(), context identity (value/reference/pointer/empty contexts), request(), pendingTransition()/currentTransition() against the "
               "harness's round bookkeeping, isActive(i) for every i against the machine read at the same moment, origin of requests made through the control."),
    "C07": fsm("every payload carries a unique tag; guards must see the tag of the request under evaluation, enter()/reenter() the tag of the applied survivor, "
               "previousTransition() likewise; payload-free requests must expose none; six payload types (1, 3, 12, 8(double), 32 aligned 16, 64 bytes)."),
    "C08": fsm("plan-step window per cycle: fires (logger records not caused by the harness, or plan difference when no logger) must be legal (origin active, success "
               "outstanding, nothing of another origin ahead), the plan afterwards = plan before minus fired tasks in order, reports consumed; converse: head task of a "
               "succeeding active state must fire; on machines of 4..255 states every state is taken as the origin of a payload task (wideplan)."),
    "C09": fsm("planSucceeded/planFailed deliveries checked against outstanding reports, plan emptiness, 'task added since activation', one per cycle, no fire with "
               "planFailed, plan empty afterwards, converse for failure; instances are placement-constructed over 0x00/0xFF/0x01/0xAA/0x55/random memory."),
    "C10": ("contmon+fsmmon+wideplan",
            "TaskListT against a slot model after every operation (21 capacities x 3 payload kinds, leak probes) and, on real machines, Plan/CPlan iteration, first()/last()/bool, "
            "append results at and below capacity, iterator removal while iterating, clear, consumption by firing, outcome clearing and clear-then-refill leak probes compared "
            "with the harness's list after every edit and at every observation point (three handle kinds: Plan, const Plan, CPlan); the capacity is the one the program configured "
            "(all 120 alias orders); machines of 4..255 states: fill, iterator removal, refill and remove-one/append-one churn at full capacity.",
            "trusts the reference models in harness/contmon.cpp and harness/fsm_track.hpp", 
            "runtime monitoring: reference-model comparison after every operation (containers) + online plan read-back in instrumented callbacks"),
    "C11": fsm("previousTransition() after every call = the applied survivor (origin, destination, payload) or empty; a replica with hostile guards is driven only by "
               "replayEnter/replayTransition with those destinations and compared after every step; replayTransition(INVALID) must change nothing."),
    "C12": fsm("save() of the authority (observers and canary bytes unchanged, no bits beyond capacity) loaded into a loader put in an arbitrary state (incl. inactive, with "
               "outstanding request/plan, hostile guards): exact exit/enter/reenter trace, resulting activity, canonical bytes per activity. (All pairs for larger N: see C14's engine once built.)"),
    "C15": fsm("for every delivery to a state with k=0..3 injections: each injection and the state exactly once, I1..Ik,S for entry-type callbacks and S,Ik..I1 for exit-type ones; "
               "also with state classes that leave callbacks out (the injection then runs alone, exactly once) and with injections whose callbacks are virtual."),
    "C16": fsm("with a recording logger: every delivery announced by exactly one method record before any user code, every record followed by its delivery, one matching "
               "record per changeTo/cancel/succeed/fail; differential: identical decision streams with logging compiled out / in / verbose and logger attached "
               "throughout / never / toggled must give identical per-history digests.",
               tech="runtime monitoring: online log-vs-delivery monitor + differential execution across logging configurations"),
    "C17": fsm("copy construction runs no callback and yields equal observers/serialized form; the copy and the original, fed the same operations and decisions, must produce "
               "identical traces without disturbing each other; the same histories over six memory pre-fill patterns must give identical digests; valgrind memcheck "
               "with the instance memory marked undefined must report no uninitialised-value use inside ffsm2 frames.",
               tech="runtime monitoring: copy/prefill differential execution + valgrind memcheck"),
    "C18": fsm("all fsmmon histories under g++ ASan+UBSan with fatal reports (thorough: also clang++), valgrind memcheck, a build with operator new/malloc family wrapped and "
               "counted during library calls, and nm inspection of an all-API object file; extremes included (plans at capacity, N=1..8, payload alignments 1..16).",
               tech="sanitizers (ASan, UBSan), valgrind memcheck, allocation counters over the monitored workloads",
               note="a clean run is 'no report on these executions', not memory safety; N=255 machines and container extremes are covered by the C14/C20/C13 engines"),
})
CHECKS["C14"] = ("widemon+fsmmon",
    "one machine per size: quick = 22 sizes around powers of two up to 255 (9 of them also with a root head), thorough = every N in 1..255; stateId<T>()==position "
    "is a static_assert over all states; at run time every k < N is the destination of changeTo+update / react / query / immediate self transition / "
    "replayTransition in three visiting orders and the exact callback sequence, control.stateId(), access<T>() identity and activeStateId()/isActive(j) are compared.",
    "trusts the expected sequences in harness/widemon.cpp; behaviour inside callbacks is trivial there; the behavioural runs (N <= 32, random histories) add: no callback of a state that was neither left nor addressed",
    "runtime monitoring: exhaustive enumeration over (N, k) with exact callback-sequence and object-identity comparison")
CHECKS["C12"] = ("fsmmon+widemon",) + CHECKS["C12"][1:]
CHECKS["C12"] = (CHECKS["C12"][0], CHECKS["C12"][1].replace("(All pairs for larger N: see C14's engine once built.)",
    "widemon adds every (saver activity, loader activity) pair incl. inactive for the sampled sizes (all pairs for N <= 33 in quick, for every N in 1..255 in thorough), for manually and for automatically activated machines."),
    CHECKS["C12"][2], "runtime monitoring: online trace monitors on random histories + exhaustive enumeration of (saver, loader) pairs per machine size")
ENGINES.append({"name": "widemon", "path": "harness/widemon.cpp, vlib/wide.py", "serves_properties": ["C14", "C12", "C13", "C18"], "kind_free_text": "one generated machine per state count 1..255"})
ENGINES.append({"name": "wideplan", "path": "harness/wideplan.cpp, vlib/wide.py", "serves_properties": ["C08", "C09", "C10", "C17", "C18"], "kind_free_text": "plans on machines of 4..255 states, every state as origin, capacities below/above the state count"})
ENGINES.append({"name": "cfgorder", "path": "harness/cfgorder.cpp, harness/cfg_orders.inc", "serves_properties": ["C01", "C04", "C06", "C07", "C10"], "kind_free_text": "the five configuration aliases chained in all 120 orders"})
ENGINES.append({"name": "fsmmon", "path": "harness/fsmmon.cpp (+fsm_*.hpp), vlib/fsm.py", "serves_properties": ["C01","C02","C03","C04","C05","C06","C07","C08","C09","C10","C11","C12","C14","C15","C16","C17","C18"],
                "kind_free_text": "instrumented machine configurations driven by seeded/enumerated histories with online trace monitors"})

NOT_YET = "check not yet built at this commit (work in progress, see DESIGN.md section 7a); nothing is claimed for it yet"


def main():
    props = [json.loads(l)["id"] for l in open(os.path.join(VERIF, "properties.jsonl"))]
    hooks_commits = []
    try:
        out = subprocess.check_output(["git", "-C", "/repo", "log", "--format=%h %s"], text=True)
        hooks_commits = [l.split()[0] for l in out.splitlines() if l.split(" ", 1)[1].startswith(("verif-hook:", "verif hook:"))]
    except Exception:
        pass
    checks = []
    for pid in props:
        if pid not in CHECKS:
            continue
        eng, text, note, tech = CHECKS[pid]
        checks.append({
            "property_id": pid,
            "quick_cmd": "./vcheck %s --tier quick" % pid,
            "thorough_cmd": "./vcheck %s --tier thorough" % pid,
            "evidence_file": "evidence/%s.json" % pid,
            "replay_cmd_template": "./vcheck --replay {path}",
            "engine": eng,
            "level_claimed": {"category": "exploration", "text": text, "design_ref": "DESIGN.md section 4, " + pid},
            "level_note": note,
            "technique": tech,
        })
    na = [{"property_id": p, "reason": NOT_YET} for p in props if p not in CHECKS]
    m = {
        "version": 1,
        "setup_cmd": "./vcheck --setup",
        "hooks": {
            "guard": "FFSM2_VERIF",
            "enable": "one hook: with -DFFSM2_VERIF the library's fixed containers (StaticArrayT/DynamicArrayT/BitArrayT/TaskListT accessors, bit-stream "
                      "read/write) report an out-of-range index to extern \"C\" ffsm2VerifOutOfBounds(), defined in harness/vh.hpp; only the C18 check builds "
                      "with it (vlib/fsm.py: prop_c18, '-hook' builds). Everything else observes through user callbacks, control objects, the LoggerInterface "
                      "and public observers. With the guard off the macro expands to ((void) 0).",
            "baseline_off_cmd": "/verif/baseline.sh",
            "source_commits": hooks_commits,
            "add_only": True,
        },
        "engines": ENGINES,
        "checks": checks,
        "not_applicable": na,
        "notes": "Runtime monitoring and sanitizers only; see DESIGN.md. Genuine defects repaired in /repo are listed in known_findings.json (status fixed).",
    }
    with open(os.path.join(VERIF, "MANIFEST.json"), "w") as fh:
        json.dump(m, fh, indent=1)
        fh.write("\n")


if __name__ == "__main__":
    main()
