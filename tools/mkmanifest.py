#!/usr/bin/env python3
# Regenerates /verif/MANIFEST.json from the table below (run after adding a check).
import json
import os
import subprocess

VERIF = os.path.dirname(os.path.dirname(os.path.abspath(__file__)))

# property -> (engine, level text, level note, technique)
CHECKS = {
    "C10": ("contmon+fsmmon",
            "TaskListT driven through its public interface against a reference slot model after every operation "
            "(21 capacities x 3 payload kinds, drain-and-refill leak probes); held on the executions counted in the evidence.",
            "trusts the reference model in harness/contmon.cpp and the compiler",
            "runtime monitoring: reference-model comparison after every operation on seeded random histories"),
    "C13": ("contmon",
            "Bit streams of every capacity 1..255 compared bit-for-bit with a reference bit vector after every write and on "
            "read-back; every (start offset, width, 0/ones/walking-bit) single-field case enumerated; bitWidth compared with "
            "clz on 2^24 sampled arguments (quick) / all 2^32 arguments (thorough).",
            "trusts the reference bit vector and __builtin_clz",
            "runtime monitoring: reference-model comparison; exhaustive enumeration of single-field cases and bitWidth arguments"),
    "C19": ("cfgmatrix",
            "Every one of the 2^8 switch subsets (+ENABLE_ALL) is compiled and run on a feature-neutral scenario and the complete "
            "output compared; quick: all 257 subsets with g++/c++11/shipped header + corners + a seeded 64-point sample of the "
            "other (std, compiler, header) combinations; thorough: the full 257 x 4 x 2 x 2 space. join.py output is byte-compared "
            "with the shipped header.",
            "only g++ 12.2 and clang++ 14 are available (no MSVC); 'does not use a feature' is represented by one scenario program",
            "runtime monitoring: differential execution across build configurations (compiler exit status + trace digest)"),
    "C20": ("contmon",
            "BitArrayT/StaticArrayT/DynamicArrayT of every capacity 1..255 compared with set/vector models after every operation "
            "on seeded random histories (including set-all, and-assign, drain-to-empty).",
            "trusts the models in harness/contmon.cpp",
            "runtime monitoring: reference-model comparison after every operation"),
}

ENGINES = [
    {"name": "contmon", "path": "harness/contmon.cpp", "serves_properties": ["C10", "C13", "C20"],
     "kind_free_text": "reference-model monitors for containers, bit streams, task list"},
    {"name": "cfgmatrix", "path": "vlib/cfgmatrix.py + harness/cfgscenario.cpp", "serves_properties": ["C19"],
     "kind_free_text": "differential build-and-run over feature switches, standards, compilers, header variants"},
]

NOT_YET = "check not yet built at this commit (work in progress, see DESIGN.md section 7a); nothing is claimed for it yet"


def main():
    props = [json.loads(l)["id"] for l in open(os.path.join(VERIF, "properties.jsonl"))]
    hooks_commits = []
    try:
        out = subprocess.check_output(["git", "-C", "/repo", "log", "--format=%h %s"], text=True)
        hooks_commits = [l.split()[0] for l in out.splitlines() if l.split(" ", 1)[1].startswith("verif-hook:")]
    except Exception:
        pass
    checks = []
    for pid in props:
        if pid not in CHECKS:
            continue
        eng, text, note, tech = CHECKS[pid]
        checks.append({
            "property_id": pid,
            "quick_cmd": "./vcheck %s --tier quick" % pid,
            "thorough_cmd": "./vcheck %s --tier thorough" % pid,
            "evidence_file": "evidence/%s.json" % pid,
            "replay_cmd_template": "./vcheck --replay {path}",
            "engine": eng,
            "level_claimed": {"category": "exploration", "text": text, "design_ref": "DESIGN.md section 4, " + pid},
            "level_note": note,
            "technique": tech,
        })
    na = [{"property_id": p, "reason": NOT_YET} for p in props if p not in CHECKS]
    m = {
        "version": 1,
        "setup_cmd": "./vcheck --setup",
        "hooks": {
            "guard": "FFSM2_VERIF",
            "enable": "no source hooks are needed: the monitors observe through user callbacks, control objects, the "
                      "LoggerInterface and the public observers; nothing in /repo is guarded by FFSM2_VERIF",
            "baseline_off_cmd": "/verif/baseline.sh",
            "source_commits": hooks_commits,
            "add_only": True,
        },
        "engines": ENGINES,
        "checks": checks,
        "not_applicable": na,
        "notes": "Runtime monitoring and sanitizers only; see DESIGN.md. Genuine defects repaired in /repo are listed in known_findings.json (status fixed).",
    }
    with open(os.path.join(VERIF, "MANIFEST.json"), "w") as fh:
        json.dump(m, fh, indent=1)
        fh.write("\n")


if __name__ == "__main__":
    main()
