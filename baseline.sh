#!/bin/sh
# Runs the repository's own test-suite (guard OFF: no FFSM2_VERIF define anywhere) the way the
# baseline was recorded: cmake/ninja build in /repo/_build, then ctest.
set -e
B=/repo/_build
[ -f "$B/build.ninja" ] || cmake -S /repo -B "$B" -G Ninja -DCMAKE_BUILD_TYPE=RelWithDebInfo -DCMAKE_CXX_FLAGS=-Wno-error >/dev/null
cmake --build "$B" -j16
ctest --test-dir "$B" -j8 --timeout 900 --output-on-failure
