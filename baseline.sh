#!/bin/sh
# Runs the repository's own test-suite (guard OFF: no FFSM2_VERIF define anywhere) the way the
# baseline was recorded: cmake/ninja build in /repo/_build, then the doctest binary itself
# (the project registers no ctest tests; the binary is what BASELINE.json's 30 entries come from).
set -e
B=/repo/_build
[ -f "$B/build.ninja" ] || cmake -S /repo -B "$B" -G Ninja -DCMAKE_BUILD_TYPE=RelWithDebInfo -DCMAKE_CXX_FLAGS=-Wno-error >/dev/null
cmake --build "$B" -j16
"$B/ffsm2_test"
