# E2 driver: containers / bit streams / task list (C20, C13, and the TaskListT part of C10)

import os
import struct

from . import common as C

CHUNKS = [(lo, min(lo + 15, 255)) for lo in range(1, 256, 16)]
BASE_FLAGS = ["-O1", "-Wall", "-Wextra", "-pthread"]


def _read_sigs(path, into):
    try:
        with open(path, "rb") as fh:
            data = fh.read()
    except OSError:
        return
    n = len(data) // 8
    into.update(struct.unpack("<%dQ" % n, data[:n * 8]))


def _build_all(tree, propnum, verdict, variant, extra=()):
    """One binary per capacity chunk (C20, C13) or a single one (C10)."""
    chunks = CHUNKS if propnum in (20, 13) else [(1, 255)]

    def one(ch):
        flags = BASE_FLAGS + ["-DCONT_PROP=%d" % propnum, "-DCONT_LO=%d" % ch[0], "-DCONT_HI=%d" % ch[1]] + list(extra)
        return ch, C.build(tree, "contmon.cpp", flags, variant=variant, name="contmon%d_%d" % (propnum, ch[0]))

    return C.parallel(one, chunks)


def run(prop, tier, seed, verdict, tree):
    propnum = int(prop[1:])
    total_stats = {}
    sigs = set()
    samples = []
    variants = tree.header_variants()
    for variant in variants:
        extra = []
        builds = _build_all(tree, propnum, verdict, variant)
        if propnum == 20 and any(not b.ok for _, b in builds):
            # Does it build when the harness does not range-iterate StaticArrayT?  Then the
            # un-instantiable begin()/end() is the observation (a configuration that cannot be
            # built cannot be run), reported under its own key; the rest is still monitored.
            builds2 = _build_all(tree, propnum, verdict, variant, extra=["-DCONT_STATIC_ITER=0"])
            if all(b.ok for _, b in builds2):
                bad = [b for _, b in builds if not b.ok][0]
                first_err = next((l for l in bad.log.splitlines() if "error" in l), bad.log[-300:])
                verdict.violation("staticarray.range-iteration-does-not-compile",
                                  "a program that iterates ffsm2::detail::StaticArrayT with begin()/end() "
                                  "(range-for) is rejected by the compiler [%s header]: %s" % (variant[0], first_err[:400]))
                builds = builds2
        failed = [(ch, b) for ch, b in builds if not b.ok]
        if failed:
            ch, b = failed[0]
            first_err = next((l for l in b.log.splitlines() if "error" in l), b.log[-300:])
            verdict.violation("monitor-does-not-build|%s" % variant[0],
                              "contmon (public container interfaces only) does not compile against the %s header: %s"
                              % (variant[0], first_err[:500]))
            continue

        nshards = len(builds) if propnum in (20, 13) else C.NCPU
        jobs = []
        if propnum in (20, 13):
            for i, (ch, b) in enumerate(builds):
                jobs.append((b.path, i, nshards))
        else:
            for i in range(nshards):
                jobs.append((builds[0][1].path, i, nshards))

        def one(job):
            path, shard, shards = job
            sig = os.path.join(verdict.outdir, "sigs-%s-%d.bin" % (variant[0], shard))
            cmd = [path, "--tier", tier, "--seed", str(seed), "--shard", str(shard), "--shards", str(shards),
                   "--sigfile", sig]
            return job, sig, C.run_monitor(cmd, timeout=3600 if tier == "thorough" else 900)

        for job, sig, r in C.parallel(one, jobs):
            if r.timed_out:
                verdict.harness_error("contmon shard %d timed out (watchdog) — inconclusive" % job[1])
                continue
            if r.rc != 0:
                verdict.violation("monitor-process-died|rc=%s" % r.rc,
                                  "contmon exited abnormally (rc=%s) cmd=%s stderr=%s" % (r.rc, " ".join(r.cmd), r.stderr_tail[-600:]))
            for v in r.viols:
                verdict.violation(v["key"], v.get("msg", ""), prop=v.get("prop"))
            C.merge_stats(total_stats, r.stats)
            _read_sigs(sig, sigs)
            if len(samples) < 6:
                samples.extend(r.samples[:2])
            try:
                os.unlink(sig)
            except OSError:
                pass

    cov = verdict.coverage
    cov["evaluations"] = int(total_stats.get("cases", 0))
    cov["distinct_nontrivial"] = len(sigs)
    cov["samples"] = samples[:6]
    cov["header_variants"] = [v[0] for v in variants]
    cov["ops"] = total_stats.get("ops", {})
    for k in ("capacities", "widths", "start_offsets"):
        if k in total_stats:
            cov[k + "_covered"] = len(total_stats[k])
    for k, v in total_stats.items():
        if isinstance(v, (int, float)) and k not in ("cases", "distinct_nontrivial_local"):
            cov[k] = v
    if propnum == 20:
        cov["rule"] = ("a case = one seeded random operation history on one container type and capacity (all capacities "
                       "1..255; BitArrayT, StaticArrayT/DynamicArrayT over u8/u32/5-byte struct), the container compared "
                       "with its model after every operation; non-trivial = the history used set-all / and-assign / drain "
                       "(bit array), fill/clear (fixed array) or reached capacity / appended an array (growable); distinct "
                       "by hash of (type, capacity, operation sequence)")
        cov["exhaustive"] = False
    elif propnum == 13:
        cov["rule"] = ("a case = one field sequence (widths 1..32, total <= capacity) or one (start offset 0..7, width) pair on "
                       "one stream capacity (all capacities 1..255), buffer compared with a reference bit vector after every "
                       "write and values compared on read-back; non-trivial = at least two fields; distinct by hash of "
                       "(capacity, widths, values). bitWidth() is compared with 32-clz on the values counted in "
                       "bitwidth_arguments_checked" + (" (all 2^32 arguments)" if tier == "thorough" else ""))
        cov["exhaustive_subspace"] = ("bitWidth over all 2^32 arguments; bitWidth(N) round-trips every index < N for N=1..255"
                                      if tier == "thorough" else "bitWidth(N) round-trips every index < N for N=1..255")
    else:
        cov["rule"] = ("a case = one seeded random emplace/remove/clear history on TaskListT<payload, capacity> "
                       "(21 capacities 1..255, three payload kinds), count/empty/occupied slots compared with the model after "
                       "every operation, with drain-and-refill leak probes; non-trivial = the list became full and a freed slot "
                       "was recycled afterwards; distinct by hash of (payload kind, capacity, operation sequence)")
    return total_stats
