# E1 driver: builds one fsmmon binary per configuration and runs the workloads of a property.

import os
import re
import struct
import subprocess

from . import common as C

P, S, H, G, V = "FFSM2_ENABLE_PLANS", "FFSM2_ENABLE_SERIALIZATION", "FFSM2_ENABLE_TRANSITION_HISTORY", \
    "FFSM2_ENABLE_LOG_INTERFACE", "FFSM2_ENABLE_VERBOSE_DEBUG_LOG"


_cfg_counter = [0]


def cfg(name, N=3, head=1, manual=0, L=4, cap=0, pay=0, ctx=1, inj=0, bare=0, feats=(), scale=1.0, partial=0, headout=3, virt=0, constcb=0):
    # the order in which the configuration aliases are applied rotates over the configurations
    order = _cfg_counter[0] % 4
    _cfg_counter[0] += 1
    d = ["-DCFG_ORDER=%d" % order, "-DCFG_N=%d" % N, "-DCFG_HEAD=%d" % head, "-DCFG_MANUAL=%d" % manual, "-DCFG_L=%d" % L, "-DCFG_CAP=%d" % cap,
         "-DCFG_PAYLOAD=%d" % pay, "-DCFG_CTX=%d" % ctx, "-DCFG_INJ=%d" % inj, "-DCFG_BARE=%d" % bare,
         "-DCFG_PARTIAL=%d" % partial, "-DCFG_HEADOUT=%d" % headout, "-DCFG_VIRT=%d" % virt, "-DCFG_CONSTCB=%d" % constcb] + ["-D" + f for f in feats]
    return {"name": name, "defs": d, "feats": set(feats), "N": N, "head": head, "manual": manual, "L": L, "cap": cap, "pay": pay,
            "ctx": ctx, "inj": inj, "bare": bare, "scale": scale, "partial": partial, "headout": headout}


# a pairwise-style cover of N x L x capacity x payload x context x injections x activation x root kind x features
CONFIGS = [
    cfg("full3", N=3, head=1, manual=0, L=4, pay=0, ctx=1, feats=(P, S, H, G)),
    cfg("man3pay", N=3, head=1, manual=1, L=2, pay=3, ctx=2, feats=(P, S, H, G)),
    cfg("peer2cap1", N=2, head=0, manual=0, L=1, cap=1, pay=1, ctx=0, feats=(P, S, H, G)),
    cfg("peer5man", N=5, head=0, manual=1, L=3, cap=7, pay=5, ctx=3, feats=(P, S, H, G)),
    cfg("one", N=1, head=1, manual=0, L=4, pay=0, ctx=1, feats=(P, S, H, G)),
    cfg("inj1L7", N=4, head=1, manual=0, L=7, cap=2, pay=4, ctx=1, inj=1, feats=(P, S, H, G)),
    cfg("inj3vlog", N=3, head=1, manual=1, L=2, pay=2, ctx=1, inj=3, feats=(P, V)),
    cfg("n8inj2", N=8, head=1, manual=0, L=4, pay=6, ctx=2, inj=2, feats=(P,)),
    cfg("bare3", N=3, head=0, manual=0, L=2, pay=0, ctx=1, feats=()),
    cfg("serhist", N=3, head=1, manual=1, L=3, pay=3, ctx=1, feats=(S, H)),
    cfg("peer2vlog", N=2, head=0, manual=1, L=2, pay=0, ctx=1, feats=(P, V, S, H)),
    cfg("plansnolog", N=3, head=1, manual=0, L=2, pay=0, ctx=1, feats=(P,)),
    cfg("n5inj1", N=5, head=1, manual=0, L=4, cap=3, pay=3, ctx=3, inj=1, feats=(P, G)),
    cfg("peer4nolog", N=4, head=0, manual=0, L=2, cap=4, pay=2, ctx=2, feats=(P, S, H)),
    cfg("man2inj2", N=2, head=1, manual=1, L=1, cap=2, pay=5, ctx=0, inj=2, feats=(P, S, H, G)),
    cfg("n6log", N=6, head=0, manual=1, L=5, cap=1, pay=4, ctx=1, feats=(G,)),
    # the smallest machine core there can be: one-byte value context, no payload, no optional feature
    cfg("tiny", N=2, head=1, manual=0, L=2, pay=0, ctx=4, feats=()),
    cfg("tinyser", N=3, head=0, manual=1, L=1, pay=0, ctx=4, feats=(S,)),
    # state classes that define only some of the callbacks (one injection keeps every delivery observable), and
    # root heads that define only one / none of the plan outcome callbacks
    cfg("partial7", N=4, head=1, manual=0, L=3, pay=3, ctx=1, inj=1, partial=7, feats=(P, S, H, G)),
    cfg("partial2m", N=3, head=1, manual=1, L=2, pay=0, ctx=2, inj=1, partial=2, feats=(P, G)),
    cfg("partial4v", N=5, head=0, manual=0, L=4, pay=1, ctx=1, inj=1, partial=4, feats=(P, V)),
    cfg("onlyPF", N=3, head=1, manual=0, L=3, pay=2, ctx=1, headout=2, feats=(P, G)),
    cfg("onlyPS", N=2, head=1, manual=1, L=2, pay=0, ctx=1, headout=1, feats=(P, S, H, G)),
    cfg("noOutcomes", N=3, head=1, manual=0, L=2, pay=4, ctx=3, inj=1, headout=0, feats=(P, V)),
    # a payload larger than 255 bytes
    cfg("bigpay", N=3, head=1, manual=0, L=3, cap=4, pay=7, ctx=1, feats=(P, S, H, G)),
    cfg("bigpaym", N=2, head=0, manual=1, L=2, pay=7, ctx=3, inj=1, feats=(P, H)),
    # injections whose callbacks are virtual (one and two per state); state classes whose callbacks are const-qualified
    cfg("virt1", N=3, head=1, manual=0, L=3, pay=1, ctx=1, inj=1, virt=1, feats=(P, G)),
    cfg("virt2m", N=4, head=0, manual=1, L=2, pay=0, ctx=2, inj=2, virt=1, feats=(P, S, H)),
    cfg("constcb", N=3, head=1, manual=0, L=3, pay=3, ctx=1, inj=0, constcb=1, feats=(P, S, H, G)),
    cfg("constcb1m", N=2, head=1, manual=1, L=2, pay=0, ctx=3, inj=1, constcb=1, feats=(P, G)),
    # state counts beyond one storage unit of the per-state bit sets (9, 17, 32 states)
    cfg("n9plans", N=9, head=1, manual=0, L=3, cap=0, pay=3, ctx=1, feats=(P, S, H, G), scale=0.5),
    cfg("n17peer", N=17, head=0, manual=1, L=2, cap=20, pay=0, ctx=2, inj=1, feats=(P, S, H), scale=0.4),
    cfg("n32", N=32, head=1, manual=0, L=4, cap=5, pay=2, ctx=1, feats=(P, G, H), scale=0.3),
    # the extremes of the configuration types: largest substitution limit and task capacity (both uint8_t)
    cfg("extreme", N=2, head=1, manual=0, L=255, cap=254, pay=1, ctx=1, feats=(P, S, H, G), scale=0.08),
]

# states that define no callback at all, observable only through the verbose log (C16)
BARE_CONFIGS = [
    cfg("bare1of3", N=3, head=1, manual=0, L=3, pay=0, ctx=1, bare=1, feats=(P, V, H)),
    cfg("bare2of4", N=4, head=0, manual=1, L=2, pay=3, ctx=1, bare=2, feats=(P, V)),
]

# bounded-exhaustive enumeration of guard decisions (C03, C04): K=0, N=3
ENUM_CONFIGS = [
    cfg("enumL1", N=3, head=1, manual=0, L=1, pay=0, ctx=1, feats=(P, G, H)),
    cfg("enumL2", N=3, head=0, manual=1, L=2, pay=0, ctx=1, feats=(P, H)),
    cfg("enumL3", N=3, head=1, manual=0, L=3, pay=0, ctx=1, feats=(P, G, H)),
    cfg("enumN2L4", N=2, head=1, manual=1, L=4, pay=0, ctx=1, feats=(P, G, H)),
]

# C16 differential: the same decision stream with the log interface compiled out / in / verbose
def log_variants(base):
    out = []
    for tag, extra in (("nolog", ()), ("log", (G,)), ("vlog", (V,))):
        c = cfg(base["name"] + "-" + tag, N=base["N"], head=base["head"], manual=base["manual"], L=base["L"], cap=base["cap"],
                pay=base["pay"], ctx=base["ctx"], inj=base["inj"], feats=tuple(f for f in base["feats"] if f not in (G, V)) + extra)
        out.append(c)
    return out


DIFF_BASES = [
    cfg("dA", N=3, head=1, manual=0, L=3, pay=3, ctx=1, inj=1, feats=(P, S, H)),
    cfg("dB", N=4, head=0, manual=1, L=2, cap=2, pay=0, ctx=2, feats=(P, H)),
]

NEEDS = {
    "C07": lambda c: c["pay"] != 0,
    "C08": lambda c: P in c["feats"],
    "C09": lambda c: P in c["feats"],
    "C10": lambda c: P in c["feats"],
    "C11": lambda c: H in c["feats"],
    "C12": lambda c: S in c["feats"],
    "C15": lambda c: True,
    "C16": lambda c: (G in c["feats"] or V in c["feats"]),
}

BASE_FLAGS = ["-O1", "-Wall", "-Wextra", "-Wno-unused-variable", "-Wno-unused-but-set-variable"]
SAN_FLAGS = ["-O1", "-g", "-fno-omit-frame-pointer", "-fsanitize=address,undefined", "-fno-sanitize-recover=all"]


def read_u64(path):
    try:
        with open(path, "rb") as fh:
            data = fh.read()
    except OSError:
        return []
    n = len(data) // 8
    return list(struct.unpack("<%dQ" % n, data[:n * 8]))


class Runner:
    def __init__(self, prop, tier, seed, verdict, tree):
        self.prop, self.tier, self.seed, self.verdict, self.tree = prop, tier, seed, verdict, tree
        self.stats = {}
        self.sigs = set()
        self.samples = []
        self.first_last = None
        self.configs_run = []

    # -- does Plan::first()/last() link on this tree?  (C10 observes through it)
    def probe_first_last(self, variant):
        if self.first_last is None:
            b = C.build(self.tree, "probe_plan_first_last.cpp", ["-O0"], variant=variant, name="probe_first_last")
            self.first_last = b.ok
            self.first_last_log = b.log
        return self.first_last

    def build_many(self, configs, variant, flags=BASE_FLAGS, cxx="g++", extra=(), link=(), tag=""):
        fl = self.probe_first_last(variant)

        def one(c):
            f = list(flags) + c["defs"] + ["-DVERIF_PLAN_FIRST_LAST=%d" % (1 if fl else 0)] + list(extra)
            return c, C.build(self.tree, "fsmmon.cpp", f, variant=variant, cxx=cxx, name="fsmmon-%s%s" % (c["name"], tag), link=link)

        res = C.parallel(one, configs)
        ok = []
        for c, b in res:
            if not b.ok:
                first_err = next((l for l in b.log.splitlines() if "error" in l), b.log[-400:])
                self.verdict.violation("monitor-does-not-build|%s|%s" % (c["name"], variant[0]),
                                       "fsmmon (a program using only the documented API) does not compile for configuration %s "
                                       "against the %s header with %s: %s" % (c["name"], variant[0], cxx, first_err[:600]))
            else:
                ok.append((c, b))
        return ok

    def run_jobs(self, jobs, timeout, env=None, on_abnormal=None):
        """jobs: list of (cfg, path, args).  Collect violations/stats/signatures."""
        outdir = self.verdict.outdir

        def one(ij):
            i, (c, path, args) = ij
            sig = os.path.join(outdir, "sig-%d.bin" % i)
            cmd = [path, "--prop", self.prop, "--tier", self.tier, "--seed", str(self.seed), "--out", outdir, "--sigfile", sig,
                   "--cfgname", c["name"]] + args
            return c, sig, C.run_monitor(cmd, timeout=timeout, env=env)

        results = C.parallel(one, list(enumerate(jobs)))
        for c, _, _ in jobs:
            if not any(x["name"] == c["name"] for x in self.configs_run):
                self.configs_run.append(c)
        for c, sig, r in results:
            if r.timed_out:
                self.verdict.harness_error("fsmmon %s timed out after %ds (watchdog; inconclusive): %s" % (c["name"], timeout, " ".join(r.cmd)))
                continue
            if r.rc != 0:
                if on_abnormal:
                    on_abnormal(c, r)
                else:
                    self.verdict.violation("monitor-process-died|%s|rc=%s" % (c["name"], r.rc),
                                           "fsmmon %s ended abnormally rc=%s: %s ... %s" % (c["name"], r.rc, " ".join(r.cmd), r.stderr_tail[-800:]))
            for v in r.viols:
                self.verdict.violation(v["key"], v.get("msg", ""), replay=v.get("replay") or None, prop=v.get("prop"))
            C.merge_stats(self.stats, r.stats)
            for x in read_u64(sig):
                self.sigs.add(x)
            try:
                os.unlink(sig)
            except OSError:
                pass
            if len(self.samples) < 4:
                self.samples.extend(r.samples[:1])
        return results

    def finish(self, rule, extra=None):
        cov = self.verdict.coverage
        st = self.stats
        # reach floors: what this property's oracles are about must actually have been observed; a run that
        # did not get there decides nothing (exit 2, inconclusive) instead of reporting "held"
        missing = []
        for path in floors_for(self.prop, self.configs_run):
            node = st
            for part in path.split("/"):
                node = node.get(part, 0) if isinstance(node, dict) else 0
            if not node:
                missing.append(path)
        if missing:
            self.verdict.harness_error("reach floor not met (nothing observed for: %s) - inconclusive" % ", ".join(missing))
        cov["reach_floors_checked"] = floors_for(self.prop, self.configs_run)
        cov["evaluations"] = int(cov.get("evaluations", 0)) + int(st.get("cases", 0))
        cov["distinct_nontrivial"] = int(cov.get("distinct_nontrivial", 0)) + len(self.sigs)
        cov["rule"] = (cov.get("rule", "") + " " + rule).strip()
        cov["samples"] = (cov.get("samples") or []) + self.samples[:4]
        cov["configs"] = sorted(st.get("configs", {}).keys())
        for k in ("api_calls", "callback_events", "actions", "rounds_histogram", "activation_rounds_histogram", "round_outcomes",
                  "outcomes", "load_pairs", "log_records", "profiles", "c15_deliveries_checked", "calls_at_round_limit"):
            if k in st:
                cov[k] = st[k]
        for k, v in st.items():
            if isinstance(v, (int, float)) and k not in ("cases",):
                cov[k] = v
        if extra:
            cov.update(extra)


METHODS12 = ["entryGuard", "enter", "reenter", "preUpdate", "update", "postUpdate", "preReact", "react", "postReact", "query", "exitGuard", "exit"]

FLOORS = {
    "C01": ["quiescent_observations", "api_calls/update", "callback_events/enter", "callback_events/exit", "callback_events/reenter"],
    "C02": ["processing_calls_with_redirect", "round_outcomes/survived", "move_constructions"],
    "C03": ["processing_calls_with_veto", "processing_calls_with_redirect", "round_outcomes/vetoed"],
    "C05": ["api_calls/update", "api_calls/react", "api_calls/query", "snapshot_copies_cycled"],
    "C06": ["guard_views_checked", "in_callback_assertion_sets", "setContext_calls"],
    "C07": ["payload_seen_in_enter", "no_payload_seen_in_enter", "move_constructions"],
    "C08": ["fires_checked", "converse_fire_obligations", "plan_steps_with_fires"],
    "C09": ["outcomes/planFailed", "outcomes/planSucceeded", "converse_planFailed_obligations_met"],
    "C10": ["plan_appends_at_capacity", "plan_iterator_removes", "plan_leak_probes", "plan_clears", "plan_first_last_checked"],
    "C11": ["replay_steps", "replica_comparisons", "payload_arguments_aliasing_own_history"],
    "C12": ["save_load_roundtrips", "loads_into_inactive_snapshots"],
    "C15": ["c15_deliveries_checked/" + m for m in METHODS12],
    "C16": ["c16_deliveries_matched_to_records", "c16_action_records_matched", "log_records/method", "log_records/transition",
            "log_records/taskStatus", "log_records/cancelledPending"],
    "C17": ["copies", "copy_lockstep_operations", "copy_state_data_comparisons", "snapshots_taken_during_construction"],
}


def floors_for(prop, configs):
    out = list(FLOORS.get(prop, []))
    if prop == "C04":
        # the limit itself must have been reached for every configured value (incl. the largest the type can hold)
        out += ["calls_at_round_limit/L=%d" % L for L in sorted(set(c["L"] for c in configs))]
    return out


def cases_for(tier, quick, thorough):
    return thorough if tier == "thorough" else quick


def select(prop):
    need = NEEDS.get(prop)
    return [c for c in CONFIGS if (need is None or need(c))]


RULES = {
    "C01": "non-trivial = at least one transition was applied after activation",
    "C02": "non-trivial = at least one guard round ran",
    "C03": "non-trivial = a guard vetoed or redirected",
    "C04": "non-trivial = a processing call had >= 2 guard rounds or hit the substitution limit",
    "C05": "non-trivial = an update()/react()/query() call ran",
    "C06": "non-trivial = control views were compared inside at least one guard callback",
    "C07": "non-trivial = a payload was seen by enter()/reenter() of a destination",
    "C08": "non-trivial = a plan task fired",
    "C09": "non-trivial = a plan outcome was delivered or a task result was reported",
    "C10": "non-trivial = the plan was edited (append at capacity, iterator remove, clear)",
    "C11": "non-trivial = a replica was driven by replayEnter/replayTransition",
    "C12": "non-trivial = a save()d buffer was load()ed into another instance",
    "C14": "non-trivial = at least one transition was applied after activation (the behavioural part: callbacks of states that were not addressed)",
    "C15": "non-trivial = a delivery to a state with injections was observed",
    "C16": "non-trivial = logger records were received",
    "C17": "non-trivial = a copy was taken and driven in lock-step with the original",
    "C18": "non-trivial = any case (all run under the sanitizers)",
}

COMMON_RULE = ("a case = one seeded history (chooser-driven API calls with chooser-driven callbacks: requests, guard cancels/"
               "redirects, task reports, plan edits) on one machine configuration, checked online by the trace monitors of "
               "harness/fsm_track.hpp / fsm_states.hpp; distinct by hash of the complete event sequence; ")


def run_random(prop, tier, seed, verdict, tree, quick_cases=20000, thorough_cases=600000, configs=None, ops=24, extra_args=()):
    r = Runner(prop, tier, seed, verdict, tree)
    configs = configs if configs is not None else select(prop)
    for variant in tree.header_variants():
        built = r.build_many(configs, variant)
        ncases = cases_for(tier, quick_cases, thorough_cases)
        shards = 2 if tier == "quick" else max(1, C.NCPU // 2)
        jobs = []
        for c, b in built:
            for sh in range(shards):
                # the instances are placement-constructed over a different memory fill pattern in every job
                fill = (len(jobs) + seed) % 6
                jobs.append((c, b.path, ["--cases", str(max(50, int(ncases * c.get("scale", 1.0)))), "--ops", str(ops), "--shard", str(sh), "--shards", str(shards),
                                         "--fill", str(fill)] + list(extra_args)))
        r.run_jobs(jobs, timeout=600 if tier == "quick" else 7200)
    return r


def run_enum(r, tier, tree, which):
    for variant in tree.header_variants():
        cfgs = [c for c in ENUM_CONFIGS if c["name"] in which]
        built = r.build_many(cfgs, variant)
        jobs = []
        shards = C.NCPU
        for c, b in built:
            for sh in range(shards):
                jobs.append((c, b.path, ["--mode", "enum", "--shard", str(sh), "--shards", str(shards)]))
        r.run_jobs(jobs, timeout=900 if tier == "quick" else 7200)


def run_cfgorder(r, prop, tier, seed, verdict, tree):
    """the configuration aliases chained in all 120 orders must describe the same machine"""
    for variant in tree.header_variants():
        for feats, tag in (((P,), "plans"), ((), "noplans"), ((P, S, H, V), "all")):
            b = C.build(tree, "cfgorder.cpp", ["-O0"] + ["-D" + f for f in feats], variant=variant, name="cfgorder-" + tag)
            if not b.ok:
                first_err = next((l for l in b.log.splitlines() if "error" in l), b.log[-400:])
                verdict.violation("alias-chain-does-not-compile|%s" % tag, "a configuration alias chain is rejected by the compiler (%s): %s" % (tag, first_err[:500]))
                continue
            res = C.run_monitor([b.path, "--prop", prop, "--tier", tier, "--seed", str(seed)], timeout=300)
            if res.timed_out:
                verdict.harness_error("cfgorder timed out (inconclusive)")
                continue
            if res.rc != 0:
                verdict.violation("monitor-process-died|cfgorder|rc=%s" % res.rc, "cfgorder (%s) ended rc=%s: %s" % (tag, res.rc, res.stderr_tail[-600:]))
            for v in res.viols:
                verdict.violation(v["key"], v.get("msg", ""), prop=v.get("prop"))
            r.stats["alias_orders_checked"] = r.stats.get("alias_orders_checked", 0) + int(res.stats.get("orders_checked", 0))


def prop_generic(prop, tier, seed, verdict, tree):
    r = run_random(prop, tier, seed, verdict, tree)
    extra = {}
    if prop in ("C03", "C04"):
        before = r.stats.get("cases", 0)
        run_enum(r, tier, tree, ("enumL1", "enumL2") if tier == "quick" else ("enumL1", "enumL2", "enumL3", "enumN2L4"))
        extra["exhaustive_subspace"] = (
            "complete enumeration of guard decisions {pass, cancel, redirect->x, cancel+redirect->x} in every guard callback of one "
            "processing call, from every start state, for every destination and request source (immediate, update, react, plan task) "
            "and at activation, for the configurations %s; enumerated cases: %d (space exhausted: %s)"
            % (", ".join(("enumL1", "enumL2") if tier == "quick" else ("enumL1", "enumL2", "enumL3", "enumN2L4")),
               r.stats.get("cases", 0) - before, bool(r.stats.get("enum_space_exhausted"))))
    if prop in ("C01", "C04", "C06", "C07", "C10"):
        run_cfgorder(r, prop, tier, seed, verdict, tree)
        extra["alias_orders"] = "all 120 orders of chaining ContextT/SubstitutionLimitN/PayloadT/TaskCapacityN/ManualActivation (harness/cfgorder.cpp)"
    if prop == "C10" and r.first_last is False:
        verdict.violation("plan-first-last-not-defined",
                          "a program calling Plan::first()/last() on the mutable plan handle does not link: "
                          + next((l for l in (r.first_last_log or "").splitlines() if "undefined reference" in l), "")[:400])
    r.finish(COMMON_RULE + RULES.get(prop, ""), extra)
    return r


# ---------------------------------------------------------------------------
# C16: the differential part — same decision stream, logging compiled out / in / verbose,
# logger attached throughout / never / toggled

def prop_c16(prop, tier, seed, verdict, tree):
    r = run_random(prop, tier, seed, verdict, tree)
    # non-verbose logging and states (without injections) that define nothing / only some callbacks
    for variant in tree.header_variants():
        b = C.build(tree, "lognv.cpp", ["-O0"], variant=variant, name="lognv")
        if not b.ok:
            verdict.harness_error("lognv does not build: %s" % b.log[-300:])
            continue
        res = C.run_monitor([b.path, "--prop", prop, "--tier", tier, "--seed", str(seed)], timeout=600)
        if res.timed_out:
            verdict.harness_error("lognv timed out (inconclusive)")
            continue
        if res.rc != 0:
            verdict.violation("monitor-process-died|lognv|rc=%s" % res.rc, "lognv ended rc=%s: %s" % (res.rc, res.stderr_tail[-600:]))
        for v in res.viols:
            verdict.violation(v["key"], v.get("msg", ""), prop=v.get("prop"))
        r.stats["lognv_method_records"] = r.stats.get("lognv_method_records", 0) + int(res.stats.get("method_records", 0))
    # bare states: logger attached throughout, so that every delivery to them is seen as a verbose record
    for variant in tree.header_variants():
        built = r.build_many(BARE_CONFIGS, variant)
        jobs = [(c, b.path, ["--cases", str(cases_for(tier, 8000, 250000)), "--ops", "24", "--logmode", "0", "--shard", str(sh), "--shards", "2"])
                for c, b in built for sh in range(2)]
        r.run_jobs(jobs, timeout=900 if tier == "quick" else 7200)
    ncases = cases_for(tier, 6000, 200000)
    runs_compared = 0
    for variant in tree.header_variants():
        for base in DIFF_BASES:
            vs = log_variants(base)
            built = r.build_many(vs, variant)
            if len(built) != 3:
                continue
            jobs = []
            labels = []
            for c, b in built:
                modes = [9] if c["name"].endswith("nolog") else [0, 1, 2]
                for m in modes:
                    df = os.path.join(verdict.outdir, "digest-%s-%s-%d.bin" % (variant[0], c["name"], m))
                    jobs.append((c, b.path, ["--cases", str(ncases), "--ops", "24", "--logmode", str(m), "--digestfile", df]))
                    labels.append((c["name"], m, df))
            r.run_jobs(jobs, timeout=900 if tier == "quick" else 7200)
            ref_name, ref_mode, ref_file = labels[0]
            ref = read_u64(ref_file)
            if not ref:
                verdict.harness_error("C16 differential: no digests from %s" % ref_name)
                continue
            for name, mode, f in labels[1:]:
                d = read_u64(f)
                runs_compared += 1
                if len(d) != len(ref):
                    verdict.harness_error("C16 differential: %s produced %d digests, reference %d" % (name, len(d), len(ref)))
                    continue
                bad = [i for i in range(len(d)) if d[i] != ref[i]]
                if bad:
                    what = {9: "compiled out", 0: "attached throughout", 1: "never attached", 2: "attached/detached midway"}[mode]
                    verdict.violation("logging-perturbs-the-machine|%s|%s" % (name.split("-")[-1], what.replace(" ", "-")),
                                      "configuration %s with the logger %s: %d of %d histories ran different callbacks / reached different "
                                      "states than the same histories with logging compiled out (first: case %d; re-run with "
                                      "--cases %d --case %d --logmode %d on both builds)" % (name, what, len(bad), len(d), bad[0], ncases, bad[0], mode))
            for _, _, f in labels:
                try:
                    os.unlink(f)
                except OSError:
                    pass
    r.finish(COMMON_RULE + RULES["C16"] + "; plus a differential run of identical decision streams over {log compiled out, log, verbose log} x "
             "{attached throughout, never attached, attached/detached at random points} compared by per-history digest of callbacks, "
             "actions and observable state", {"differential_runs_compared": runs_compared, "differential_histories_per_run": ncases})
    return r


# ---------------------------------------------------------------------------
# C17: prefill differential + memcheck

def valgrind_run(r, verdict, built, ncases, prop_key_prefix, only_uninit):
    """Run binaries under memcheck with the machines constructed in undefined memory."""
    outdir = verdict.outdir
    errors = 0

    def one(cb):
        c, b = cb
        logf = os.path.join(outdir, "memcheck-%s.log" % c["name"])
        cmd = ["valgrind", "--tool=memcheck", "--error-exitcode=97", "--track-origins=yes", "--num-callers=24", "-q", "--log-file=" + logf,
               b.path, "--prop", r.prop, "--cases", str(ncases), "--ops", "16", "--fill", "6", "--out", outdir, "--seed", str(r.seed),
               "--cfgname", c["name"]]
        res = C.run_monitor(cmd, timeout=3600)
        return c, logf, res

    for c, logf, res in C.parallel(one, built):
        if res.timed_out:
            verdict.harness_error("memcheck run of %s timed out (inconclusive)" % c["name"])
            continue
        C.merge_stats(r.stats, {"memcheck_cases": int(res.stats.get("cases", 0))})
        for v in res.viols:
            verdict.violation(v["key"], v.get("msg", ""), replay=v.get("replay") or None, prop=v.get("prop"))
        try:
            text = open(logf, errors="replace").read()
        except OSError:
            text = ""
        blocks = [b for b in re.split(r"\n(?===\d+== \n)|\n\n", text) if "==" in b]
        for blk in re.split(r"==\d+== \n", text):
            if not blk.strip():
                continue
            head = blk.strip().splitlines()[0]
            head = re.sub(r"==\d+== ", "", head)
            uninit = "uninitialised" in head
            if only_uninit and not uninit:
                continue
            frames = re.findall(r"(?:at|by) 0x[0-9A-F]+: (.+?) \(", blk)
            ff = [f for f in frames if "ffsm2::" in f]
            if not ff:
                continue
            errors += 1
            fn = re.sub(r"<.*", "", ff[0])
            verdict.violation("%s|%s|%s" % (prop_key_prefix, head.split(" of size")[0].replace(" ", "-")[:60], fn[-80:]),
                              "valgrind memcheck on %s (machine constructed in undefined memory): %s\n%s" % (c["name"], head, blk[:1500]))
        if res.rc not in (0, 97) and res.rc is not None:
            verdict.violation("%s|process-died|rc=%s" % (prop_key_prefix, res.rc), "fsmmon under valgrind ended rc=%s: %s" % (res.rc, res.stderr_tail[-500:]))
    return errors


def prop_c17(prop, tier, seed, verdict, tree):
    r = run_random(prop, tier, seed, verdict, tree)
    ncases = cases_for(tier, 3000, 60000)
    compared = 0
    for variant in tree.header_variants():
        built = r.build_many(CONFIGS, variant)
        jobs, labels = [], []
        for c, b in built:
            for fill in range(6):
                df = os.path.join(verdict.outdir, "pf-%s-%s-%d.bin" % (variant[0], c["name"], fill))
                jobs.append((c, b.path, ["--cases", str(max(50, int(ncases * c.get("scale", 1.0)))), "--ops", "20", "--fill", str(fill), "--digestfile", df]))
                labels.append((c["name"], fill, df))
        r.run_jobs(jobs, timeout=900 if tier == "quick" else 7200)
        by_cfg = {}
        for name, fill, f in labels:
            by_cfg.setdefault(name, []).append((fill, f))
        for name, lst in by_cfg.items():
            ref = read_u64(lst[0][1])
            for fill, f in lst[1:]:
                d = read_u64(f)
                compared += 1
                if len(d) != len(ref) or not ref:
                    verdict.harness_error("C17 prefill differential: %s fill %d produced %d digests, reference %d" % (name, fill, len(d), len(ref)))
                    continue
                bad = [i for i in range(len(d)) if d[i] != ref[i]]
                if bad:
                    pat = ["0x00", "0xFF", "0x01", "0xAA", "0x55", "random bytes"][fill]
                    verdict.violation("behaviour-depends-on-prior-memory|fill=%s" % pat,
                                      "configuration %s: %d of %d histories behave differently when the instance is constructed over memory "
                                      "pre-filled with %s instead of 0x00 (first: case %d; re-run with --cases %d --case %d --fill %d)"
                                      % (name, len(bad), len(d), pat, bad[0], ncases, bad[0], fill))
            for _, f in lst:
                try:
                    os.unlink(f)
                except OSError:
                    pass
        # memcheck: reads of indeterminate values inside the library
        vg_cfgs = [c for c in CONFIGS if c["name"] in (("full3", "man3pay", "peer5man") if tier == "quick" else
                                                        ("full3", "man3pay", "peer5man", "inj1L7", "one", "serhist", "bare3", "n6log"))]
        vbuilt = r.build_many(vg_cfgs, variant, flags=["-O1", "-g", "-DVERIF_VALGRIND"], tag="-vg")
        merr = valgrind_run(r, verdict, vbuilt, cases_for(tier, 250, 3000), "memcheck", only_uninit=True)
        r.stats["memcheck_uninitialised_errors_in_ffsm2"] = r.stats.get("memcheck_uninitialised_errors_in_ffsm2", 0) + merr
    r.finish(COMMON_RULE + RULES["C17"] + "; plus (a) the same histories on instances placement-constructed over 6 memory fill patterns, "
             "compared by per-history digest, and (b) valgrind memcheck with the instance memory marked undefined",
             {"prefill_runs_compared": compared, "prefill_histories_per_run": ncases})
    return r


# ---------------------------------------------------------------------------
# C18: sanitizers, memcheck, allocation counters, undefined allocation symbols

def san_key(stderr):
    m = re.search(r"runtime error: (.+)", stderr)
    if m:
        msg = re.sub(r"0x[0-9a-f]+", "ADDR", m.group(1))
        msg = re.sub(r"\d+ byte", "N byte", msg)
        loc = re.search(r"machine(?:_dev)?\.hpp:(\d+)", stderr)
        typ = re.search(r"for type '([^']+)'", m.group(1))
        kind = msg.split(" ADDR")[0][:50].replace(" ", "-")
        return "ubsan|%s|%s" % (kind, (typ.group(1) if typ else "")[:40])
    m = re.search(r"ERROR: AddressSanitizer: ([a-zA-Z-]+)", stderr)
    if m:
        fr = re.findall(r"#\d+ 0x[0-9a-f]+ in (\S+)", stderr)
        ff = [f for f in fr if "ffsm2" in f]
        return "asan|%s|%s" % (m.group(1), re.sub(r"<.*", "", ff[0])[-70:] if ff else "?")
    return None


def prop_c18(prop, tier, seed, verdict, tree):
    r = Runner(prop, tier, seed, verdict, tree)
    reports = 0
    compilers = ["g++"] if tier == "quick" else ["g++", "clang++"]
    cfgs = CONFIGS if tier == "thorough" else [c for c in CONFIGS if c["name"] not in ("n8inj2", "n6log", "peer4nolog", "bare3")]
    ncases = cases_for(tier, 2500, 60000)
    env = {"ASAN_OPTIONS": "abort_on_error=0:detect_leaks=0:halt_on_error=1:exitcode=98", "UBSAN_OPTIONS": "print_stacktrace=1:halt_on_error=1:exitcode=98"}
    for variant in tree.header_variants():
        for cxx in compilers:
            flags = SAN_FLAGS + (["-fno-sanitize=object-size"] if cxx == "clang++" else [])
            built = r.build_many(cfgs, variant, flags=flags, cxx=cxx, tag="-san-" + cxx)
            shards = 1 if tier == "quick" else 4

            def abnormal(c, res):
                nonlocal reports
                reports += 1
                k = san_key(res.stderr_tail)
                if k:
                    r.verdict.violation(k, "sanitizer report in %s (%s): %s" % (c["name"], cxx, res.stderr_tail[:1800]))
                else:
                    r.verdict.violation("process-died|%s|rc=%s" % (c["name"], res.rc), "fsmmon %s (%s, sanitizers) ended rc=%s: %s" % (c["name"], cxx, res.rc, res.stderr_tail[-1200:]))

            jobs = []
            for c, b in built:
                for sh in range(shards):
                    jobs.append((c, b.path, ["--cases", str(max(50, int(ncases * c.get("scale", 1.0)))), "--ops", "24", "--shard", str(sh), "--shards", str(shards), "--fill", str(1 + sh % 5)]))
            r.run_jobs(jobs, timeout=1800 if tier == "quick" else 14400, env=env, on_abnormal=abnormal)
        # the container / bit-stream / task-list monitors and a sample of machine sizes under the same sanitizers
        other = []
        chunks = [(1, 16)] if tier == "quick" else [(lo, min(lo + 15, 255)) for lo in range(1, 256, 16)]
        for propnum in (20, 13, 10):
            for ch in (chunks if propnum != 10 else [(1, 255)]):
                other.append(("contmon.cpp", ["-DCONT_PROP=%d" % propnum, "-DCONT_LO=%d" % ch[0], "-DCONT_HI=%d" % ch[1], "-pthread"],
                              "contmon%d_%d" % (propnum, ch[0]), ["--cases", "6" if tier == "quick" else "40", "--shards", "16", "--shard", "0"]))
        # incl. the sizes at which the serial buffer grows by a byte (127 -> 128 states)
        for n, h in ([(1, 1), (2, 0), (3, 1), (9, 0), (33, 1), (127, 1), (128, 0)] if tier == "quick" else [(1, 1), (2, 0), (3, 1), (9, 0), (33, 1), (64, 0), (127, 0), (127, 1), (128, 0), (128, 1), (129, 1), (255, 0)]):
            other.append(("widemon.cpp", ["-DWIDE_N=%d" % n, "-DWIDE_HEAD=%d" % h], "widemon-%d-%d" % (n, h), ["--prop", "ALL"]))

        def build_run_other(item):
            src, defs, name, args = item
            b = C.build(tree, src, SAN_FLAGS + defs, variant=variant, name=name + "-san")
            if not b.ok:
                return item, b, None
            return item, b, C.run_monitor([b.path, "--tier", tier, "--seed", str(seed)] + args, timeout=3600, env=env)

        for item, b, res in C.parallel(build_run_other, other):
            if not b.ok:
                verdict.harness_error("sanitizer build of %s failed: %s" % (item[2], b.log[-300:]))
                continue
            if res.timed_out:
                verdict.harness_error("%s under sanitizers timed out (inconclusive)" % item[2])
                continue
            r.stats["other_engine_sanitizer_runs"] = r.stats.get("other_engine_sanitizer_runs", 0) + 1
            if res.rc != 0:
                reports += 1
                k = san_key(res.stderr_tail)
                verdict.violation(k or "process-died|%s|rc=%s" % (item[2], res.rc), "sanitizer report in %s: %s" % (item[2], res.stderr_tail[-1500:]))
        # the repository's guarded hook (-DFFSM2_VERIF): every index handed to a fixed-size container of the library is
        # checked against the container's size - accesses that stay inside the enclosing object are invisible to ASan
        hbuilt = r.build_many(cfgs, variant, flags=BASE_FLAGS + ["-DFFSM2_VERIF"], tag="-hook")
        jobs = [(c, b.path, ["--cases", str(max(50, int(cases_for(tier, 3000, 60000) * c.get("scale", 1.0)))), "--ops", "24"]) for c, b in hbuilt]
        res = r.run_jobs(jobs, timeout=1800)
        r.stats["bounds_hook_runs"] = r.stats.get("bounds_hook_runs", 0) + len(res)
        hook_other = []
        for n, h in ([(3, 1), (33, 0), (128, 1), (255, 0)] if tier == "quick" else [(1, 0), (3, 1), (33, 0), (64, 1), (127, 0), (128, 1), (129, 0), (254, 1), (255, 0), (255, 1)]):
            hook_other.append(("widemon.cpp", ["-DWIDE_N=%d" % n, "-DWIDE_HEAD=%d" % h], "widemon-%d-%d" % (n, h), ["--prop", "ALL"]))
        for n, h, cap in ([(9, 1, 0), (33, 0, 40), (128, 1, 3), (255, 0, 0), (255, 1, 0)] if tier == "quick" else [(4, 0, 0), (9, 1, 0), (33, 0, 40), (65, 1, 3), (128, 1, 3), (129, 0, 254), (254, 1, 0), (255, 0, 0), (255, 1, 0), (255, 0, 254)]):
            hook_other.append(("wideplan.cpp", ["-DWIDE_N=%d" % n, "-DWIDE_HEAD=%d" % h, "-DWIDE_CAP=%d" % cap], "wideplan-%d-%d-%d" % (n, h, cap), ["--prop", "ALL"]))

        def build_run_hook(item):
            src, defs, name, args = item
            b = C.build(tree, src, ["-O0", "-DFFSM2_VERIF"] + defs, variant=variant, name=name + "-hook")
            if not b.ok:
                return item, b, None
            return item, b, C.run_monitor([b.path, "--tier", tier, "--seed", str(seed)] + args, timeout=3600)

        for item, b, res1 in C.parallel(build_run_hook, hook_other):
            if not b.ok:
                verdict.harness_error("hook build of %s failed: %s" % (item[2], b.log[-300:]))
                continue
            if res1.timed_out:
                verdict.harness_error("%s with the bounds hook timed out (inconclusive)" % item[2])
                continue
            r.stats["bounds_hook_runs"] = r.stats.get("bounds_hook_runs", 0) + 1
            if res1.rc != 0:
                verdict.violation("process-died|%s-hook|rc=%s" % (item[2], res1.rc), "%s (bounds hook build) ended rc=%s: %s" % (item[2], res1.rc, res1.stderr_tail[-800:]))
            for v in res1.viols:
                if v.get("prop") == "C18":
                    verdict.violation(v["key"], v.get("msg", ""), prop="C18")
        # allocation counters: operator new / malloc family wrapped; nothing may be called inside FFSM2 scope
        abuilt = r.build_many(cfgs, variant, flags=BASE_FLAGS + ["-DVERIF_COUNT_ALLOCS"], tag="-alloc",
                              link=["-Wl,--wrap=malloc,--wrap=calloc,--wrap=realloc,--wrap=free"])
        before = r.stats.get("allocations_in_ffsm2_scope", 0)
        jobs = [(c, b.path, ["--cases", str(max(50, int(cases_for(tier, 3000, 60000) * c.get("scale", 1.0)))), "--ops", "24"]) for c, b in abuilt]
        res = r.run_jobs(jobs, timeout=1800)
        for c, sig, rr in res:
            n = int(rr.stats.get("allocations_in_ffsm2_scope", 0))
            if n:
                verdict.violation("heap-allocation-inside-ffsm2|%s" % c["name"], "%d heap allocations/frees happened while an FFSM2 call was running outside user callbacks (%s)" % (n, c["name"]))
        r.stats["alloc_counter_runs"] = r.stats.get("alloc_counter_runs", 0) + len(res)
        # undefined allocation symbols of a TU that instantiates the whole API
        obj = os.path.join(verdict.outdir, "allapi-%s.o" % variant[0])
        for std in ("c++11", "c++17"):
            p = subprocess.run(["g++", "-std=" + std, "-O0", "-I" + variant[1], '-DVERIF_FFSM2_HEADER="%s"' % variant[2], "-c",
                                os.path.join(C.HARNESS, "allapi.cpp"), "-o", obj], capture_output=True, text=True)
            if p.returncode != 0:
                verdict.violation("allapi-does-not-compile|%s" % std, (p.stderr or "")[-600:])
                continue
            syms = subprocess.run(["nm", "-u", obj], capture_output=True, text=True).stdout.split()
            bad = [s for s in syms if re.match(r"^(_Znwm|_Znam|_ZdlPv|_ZdaPv|_ZdlPvm|_ZdaPvm|malloc|calloc|realloc|free|posix_memalign|aligned_alloc)$", s)]
            r.stats["allapi_undefined_symbols_inspected"] = r.stats.get("allapi_undefined_symbols_inspected", 0) + len(syms)
            if bad:
                verdict.violation("allocation-symbol-referenced|%s" % bad[0], "object file instantiating the whole API references %s" % ", ".join(bad))
        # memcheck (all error kinds attributable to ffsm2 frames)
        vg_cfgs = [c for c in CONFIGS if c["name"] in (("full3", "peer5man") if tier == "quick" else ("full3", "man3pay", "peer5man", "inj1L7", "man2inj2", "n8inj2"))]
        vbuilt = r.build_many(vg_cfgs, variant, flags=["-O1", "-g", "-DVERIF_VALGRIND"], tag="-vg")
        merr = valgrind_run(r, verdict, vbuilt, cases_for(tier, 250, 3000), "memcheck", only_uninit=False)
        r.stats["memcheck_errors_in_ffsm2"] = r.stats.get("memcheck_errors_in_ffsm2", 0) + merr
    r.finish(COMMON_RULE + RULES["C18"] + "; the same histories run under g++ (thorough: and clang++) AddressSanitizer+UndefinedBehaviorSanitizer with fatal "
             "reports, under valgrind memcheck with the instance memory undefined, and in a build whose operator new/malloc family is wrapped and "
             "counted while an FFSM2 call is running outside user callbacks; an all-API object file is inspected for allocation symbols",
             {"sanitizer_reports": reports, "compilers": compilers})
    return r
