# E1 driver: builds one fsmmon binary per configuration and runs the workloads of a property.

import os
import re
import struct
import subprocess

from . import common as C

P, S, H, G, V = "FFSM2_ENABLE_PLANS", "FFSM2_ENABLE_SERIALIZATION", "FFSM2_ENABLE_TRANSITION_HISTORY", \
    "FFSM2_ENABLE_LOG_INTERFACE", "FFSM2_ENABLE_VERBOSE_DEBUG_LOG"


def cfg(name, N=3, head=1, manual=0, L=4, cap=0, pay=0, ctx=1, inj=0, bare=0, feats=()):
    d = ["-DCFG_N=%d" % N, "-DCFG_HEAD=%d" % head, "-DCFG_MANUAL=%d" % manual, "-DCFG_L=%d" % L, "-DCFG_CAP=%d" % cap,
         "-DCFG_PAYLOAD=%d" % pay, "-DCFG_CTX=%d" % ctx, "-DCFG_INJ=%d" % inj, "-DCFG_BARE=%d" % bare] + ["-D" + f for f in feats]
    return {"name": name, "defs": d, "feats": set(feats), "N": N, "head": head, "manual": manual, "L": L, "cap": cap, "pay": pay,
            "ctx": ctx, "inj": inj, "bare": bare}


# a pairwise-style cover of N x L x capacity x payload x context x injections x activation x root kind x features
CONFIGS = [
    cfg("full3", N=3, head=1, manual=0, L=4, pay=0, ctx=1, feats=(P, S, H, G)),
    cfg("man3pay", N=3, head=1, manual=1, L=2, pay=3, ctx=2, feats=(P, S, H, G)),
    cfg("peer2cap1", N=2, head=0, manual=0, L=1, cap=1, pay=1, ctx=0, feats=(P, S, H, G)),
    cfg("peer5man", N=5, head=0, manual=1, L=3, cap=7, pay=5, ctx=3, feats=(P, S, H, G)),
    cfg("one", N=1, head=1, manual=0, L=4, pay=0, ctx=1, feats=(P, S, H, G)),
    cfg("inj1L7", N=4, head=1, manual=0, L=7, cap=2, pay=4, ctx=1, inj=1, feats=(P, S, H, G)),
    cfg("inj3vlog", N=3, head=1, manual=1, L=2, pay=2, ctx=1, inj=3, feats=(P, V)),
    cfg("n8inj2", N=8, head=1, manual=0, L=4, pay=6, ctx=2, inj=2, feats=(P,)),
    cfg("bare3", N=3, head=0, manual=0, L=2, pay=0, ctx=1, feats=()),
    cfg("serhist", N=3, head=1, manual=1, L=3, pay=3, ctx=1, feats=(S, H)),
    cfg("peer2vlog", N=2, head=0, manual=1, L=2, pay=0, ctx=1, feats=(P, V, S, H)),
    cfg("plansnolog", N=3, head=1, manual=0, L=2, pay=0, ctx=1, feats=(P,)),
    cfg("n5inj1", N=5, head=1, manual=0, L=4, cap=3, pay=3, ctx=3, inj=1, feats=(P, G)),
    cfg("peer4nolog", N=4, head=0, manual=0, L=2, cap=4, pay=2, ctx=2, feats=(P, S, H)),
    cfg("man2inj2", N=2, head=1, manual=1, L=1, cap=2, pay=5, ctx=0, inj=2, feats=(P, S, H, G)),
    cfg("n6log", N=6, head=0, manual=1, L=5, cap=1, pay=4, ctx=1, feats=(G,)),
]

# bounded-exhaustive enumeration of guard decisions (C03, C04): K=0, N=3
ENUM_CONFIGS = [
    cfg("enumL1", N=3, head=1, manual=0, L=1, pay=0, ctx=1, feats=(P, G, H)),
    cfg("enumL2", N=3, head=0, manual=1, L=2, pay=0, ctx=1, feats=(P, H)),
    cfg("enumL3", N=3, head=1, manual=0, L=3, pay=0, ctx=1, feats=(P, G, H)),
    cfg("enumN2L4", N=2, head=1, manual=1, L=4, pay=0, ctx=1, feats=(P, G, H)),
]

# C16 differential: the same decision stream with the log interface compiled out / in / verbose
def log_variants(base):
    out = []
    for tag, extra in (("nolog", ()), ("log", (G,)), ("vlog", (V,))):
        c = cfg(base["name"] + "-" + tag, N=base["N"], head=base["head"], manual=base["manual"], L=base["L"], cap=base["cap"],
                pay=base["pay"], ctx=base["ctx"], inj=base["inj"], feats=tuple(f for f in base["feats"] if f not in (G, V)) + extra)
        out.append(c)
    return out


DIFF_BASES = [
    cfg("dA", N=3, head=1, manual=0, L=3, pay=3, ctx=1, inj=1, feats=(P, S, H)),
    cfg("dB", N=4, head=0, manual=1, L=2, cap=2, pay=0, ctx=2, feats=(P, H)),
]

NEEDS = {
    "C07": lambda c: c["pay"] != 0,
    "C08": lambda c: P in c["feats"],
    "C09": lambda c: P in c["feats"],
    "C10": lambda c: P in c["feats"],
    "C11": lambda c: H in c["feats"],
    "C12": lambda c: S in c["feats"],
    "C15": lambda c: True,
    "C16": lambda c: (G in c["feats"] or V in c["feats"]),
}

BASE_FLAGS = ["-O1", "-Wall", "-Wextra", "-Wno-unused-variable", "-Wno-unused-but-set-variable"]
SAN_FLAGS = ["-O1", "-g", "-fno-omit-frame-pointer", "-fsanitize=address,undefined", "-fno-sanitize-recover=all"]


def read_u64(path):
    try:
        with open(path, "rb") as fh:
            data = fh.read()
    except OSError:
        return []
    n = len(data) // 8
    return list(struct.unpack("<%dQ" % n, data[:n * 8]))


class Runner:
    def __init__(self, prop, tier, seed, verdict, tree):
        self.prop, self.tier, self.seed, self.verdict, self.tree = prop, tier, seed, verdict, tree
        self.stats = {}
        self.sigs = set()
        self.samples = []
        self.first_last = None

    # -- does Plan::first()/last() link on this tree?  (C10 observes through it)
    def probe_first_last(self, variant):
        if self.first_last is None:
            b = C.build(self.tree, "probe_plan_first_last.cpp", ["-O0"], variant=variant, name="probe_first_last")
            self.first_last = b.ok
            self.first_last_log = b.log
        return self.first_last

    def build_many(self, configs, variant, flags=BASE_FLAGS, cxx="g++", extra=(), link=(), tag=""):
        fl = self.probe_first_last(variant)

        def one(c):
            f = list(flags) + c["defs"] + ["-DVERIF_PLAN_FIRST_LAST=%d" % (1 if fl else 0)] + list(extra)
            return c, C.build(self.tree, "fsmmon.cpp", f, variant=variant, cxx=cxx, name="fsmmon-%s%s" % (c["name"], tag), link=link)

        res = C.parallel(one, configs)
        ok = []
        for c, b in res:
            if not b.ok:
                first_err = next((l for l in b.log.splitlines() if "error" in l), b.log[-400:])
                self.verdict.violation("monitor-does-not-build|%s|%s" % (c["name"], variant[0]),
                                       "fsmmon (a program using only the documented API) does not compile for configuration %s "
                                       "against the %s header with %s: %s" % (c["name"], variant[0], cxx, first_err[:600]))
            else:
                ok.append((c, b))
        return ok

    def run_jobs(self, jobs, timeout, env=None, on_abnormal=None):
        """jobs: list of (cfg, path, args).  Collect violations/stats/signatures."""
        outdir = self.verdict.outdir

        def one(ij):
            i, (c, path, args) = ij
            sig = os.path.join(outdir, "sig-%d.bin" % i)
            cmd = [path, "--prop", self.prop, "--tier", self.tier, "--seed", str(self.seed), "--out", outdir, "--sigfile", sig,
                   "--cfgname", c["name"]] + args
            return c, sig, C.run_monitor(cmd, timeout=timeout, env=env)

        results = C.parallel(one, list(enumerate(jobs)))
        for c, sig, r in results:
            if r.timed_out:
                self.verdict.harness_error("fsmmon %s timed out after %ds (watchdog; inconclusive): %s" % (c["name"], timeout, " ".join(r.cmd)))
                continue
            if r.rc != 0:
                if on_abnormal:
                    on_abnormal(c, r)
                else:
                    self.verdict.violation("monitor-process-died|%s|rc=%s" % (c["name"], r.rc),
                                           "fsmmon %s ended abnormally rc=%s: %s ... %s" % (c["name"], r.rc, " ".join(r.cmd), r.stderr_tail[-800:]))
            for v in r.viols:
                self.verdict.violation(v["key"], v.get("msg", ""), replay=v.get("replay") or None, prop=v.get("prop"))
            C.merge_stats(self.stats, r.stats)
            for x in read_u64(sig):
                self.sigs.add(x)
            try:
                os.unlink(sig)
            except OSError:
                pass
            if len(self.samples) < 4:
                self.samples.extend(r.samples[:1])
        return results

    def finish(self, rule, extra=None):
        cov = self.verdict.coverage
        st = self.stats
        cov["evaluations"] = int(cov.get("evaluations", 0)) + int(st.get("cases", 0))
        cov["distinct_nontrivial"] = int(cov.get("distinct_nontrivial", 0)) + len(self.sigs)
        cov["rule"] = (cov.get("rule", "") + " " + rule).strip()
        cov["samples"] = (cov.get("samples") or []) + self.samples[:4]
        cov["configs"] = sorted(st.get("configs", {}).keys())
        for k in ("api_calls", "callback_events", "actions", "rounds_histogram", "activation_rounds_histogram", "round_outcomes",
                  "outcomes", "load_pairs", "log_records", "profiles", "c15_deliveries_checked"):
            if k in st:
                cov[k] = st[k]
        for k, v in st.items():
            if isinstance(v, (int, float)) and k not in ("cases",):
                cov[k] = v
        if extra:
            cov.update(extra)


def cases_for(tier, quick, thorough):
    return thorough if tier == "thorough" else quick


def select(prop):
    need = NEEDS.get(prop)
    return [c for c in CONFIGS if (need is None or need(c))]


RULES = {
    "C01": "non-trivial = at least one transition was applied after activation",
    "C02": "non-trivial = at least one guard round ran",
    "C03": "non-trivial = a guard vetoed or redirected",
    "C04": "non-trivial = a processing call had >= 2 guard rounds or hit the substitution limit",
    "C05": "non-trivial = an update()/react()/query() call ran",
    "C06": "non-trivial = control views were compared inside at least one guard callback",
    "C07": "non-trivial = a payload was seen by enter()/reenter() of a destination",
    "C08": "non-trivial = a plan task fired",
    "C09": "non-trivial = a plan outcome was delivered or a task result was reported",
    "C10": "non-trivial = the plan was edited (append at capacity, iterator remove, clear)",
    "C11": "non-trivial = a replica was driven by replayEnter/replayTransition",
    "C12": "non-trivial = a save()d buffer was load()ed into another instance",
    "C15": "non-trivial = a delivery to a state with injections was observed",
    "C16": "non-trivial = logger records were received",
    "C17": "non-trivial = a copy was taken and driven in lock-step with the original",
    "C18": "non-trivial = any case (all run under the sanitizers)",
}

COMMON_RULE = ("a case = one seeded history (chooser-driven API calls with chooser-driven callbacks: requests, guard cancels/"
               "redirects, task reports, plan edits) on one machine configuration, checked online by the trace monitors of "
               "harness/fsm_track.hpp / fsm_states.hpp; distinct by hash of the complete event sequence; ")


def run_random(prop, tier, seed, verdict, tree, quick_cases=4000, thorough_cases=150000, configs=None, ops=24, extra_args=()):
    r = Runner(prop, tier, seed, verdict, tree)
    configs = configs if configs is not None else select(prop)
    for variant in tree.header_variants():
        built = r.build_many(configs, variant)
        ncases = cases_for(tier, quick_cases, thorough_cases)
        shards = 1 if tier == "quick" else max(1, C.NCPU // 2)
        jobs = []
        for c, b in built:
            for sh in range(shards):
                jobs.append((c, b.path, ["--cases", str(ncases), "--ops", str(ops), "--shard", str(sh), "--shards", str(shards)] + list(extra_args)))
        r.run_jobs(jobs, timeout=600 if tier == "quick" else 7200)
    return r


def run_enum(r, tier, tree, which):
    for variant in tree.header_variants():
        cfgs = [c for c in ENUM_CONFIGS if c["name"] in which]
        built = r.build_many(cfgs, variant)
        jobs = []
        shards = C.NCPU
        for c, b in built:
            for sh in range(shards):
                jobs.append((c, b.path, ["--mode", "enum", "--shard", str(sh), "--shards", str(shards)]))
        r.run_jobs(jobs, timeout=900 if tier == "quick" else 7200)


def prop_generic(prop, tier, seed, verdict, tree):
    r = run_random(prop, tier, seed, verdict, tree)
    extra = {}
    if prop in ("C03", "C04"):
        before = r.stats.get("cases", 0)
        run_enum(r, tier, tree, ("enumL1", "enumL2") if tier == "quick" else ("enumL1", "enumL2", "enumL3", "enumN2L4"))
        extra["exhaustive_subspace"] = (
            "complete enumeration of guard decisions {pass, cancel, redirect->x, cancel+redirect->x} in every guard callback of one "
            "processing call, from every start state, for every destination and request source (immediate, update, react, plan task) "
            "and at activation, for the configurations %s; enumerated cases: %d (space exhausted: %s)"
            % (", ".join(("enumL1", "enumL2") if tier == "quick" else ("enumL1", "enumL2", "enumL3", "enumN2L4")),
               r.stats.get("cases", 0) - before, bool(r.stats.get("enum_space_exhausted"))))
    if prop == "C10" and r.first_last is False:
        verdict.violation("plan-first-last-not-defined",
                          "a program calling Plan::first()/last() on the mutable plan handle does not link: "
                          + next((l for l in (r.first_last_log or "").splitlines() if "undefined reference" in l), "")[:400])
    r.finish(COMMON_RULE + RULES.get(prop, ""), extra)
    return r
