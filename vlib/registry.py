# property -> engine functions (each: f(prop, tier, seed, verdict, tree))

def extend(table):
    from . import cfgmatrix
    table["C19"] = [cfgmatrix.run]
