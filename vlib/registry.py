# property -> engine functions (each: f(prop, tier, seed, verdict, tree))

def extend(table):
    from . import cfgmatrix, fsm, wide
    table["C19"] = [cfgmatrix.run]
    for p in ("C01", "C02", "C03", "C04", "C05", "C06", "C07", "C08", "C09", "C11", "C12", "C15", "C16", "C17"):
        table[p] = [fsm.prop_generic]
    table["C10"] = table["C10"] + [fsm.prop_generic]
    table["C14"] = [wide.run, fsm.prop_generic]
    table["C12"] = [fsm.prop_generic, wide.run]
    table["C13"] = table["C13"] + [wide.run]
    for p in ("C08", "C09", "C10"):
        table[p] = table[p] + [wide.run_plans]
    table["C16"] = [fsm.prop_c16]
    table["C17"] = [fsm.prop_c17, wide.run_plans]
    table["C18"] = [fsm.prop_c18]
