# MANIFEST.setup_cmd: warm the build cache for the quick tier (everything is rebuilt on demand anyway).
import json
import os
import subprocess
import sys

from . import common as C


def run():
    tree = C.Tree()
    C.log("tree", tree.hash, "amalgam identical:", tree.regen_identical)
    here = os.path.dirname(os.path.dirname(os.path.abspath(__file__)))
    with open(os.path.join(here, "MANIFEST.json")) as fh:
        props = [c["property_id"] for c in json.load(fh)["checks"]]
    # one representative per engine/flag set is enough to fill the cache
    for prop in ("C13", "C20", "C10", "C19", "C03", "C16", "C17", "C18", "C14"):
        if prop not in props:
            continue
        p = subprocess.run([sys.executable, os.path.join(here, "vcheck"), prop, "--tier", "quick"], cwd=here,
                           capture_output=True, text=True, env=dict(os.environ, VERIF_SETUP="1"))
        C.log("warm", prop, "rc", p.returncode)
    return 0
