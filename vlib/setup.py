# MANIFEST.setup_cmd: warm the build cache for the quick tier (everything is rebuilt on demand anyway).
import subprocess, sys, os
from . import common as C

def run():
    tree = C.Tree()
    C.log("tree", tree.hash, "amalgam identical:", tree.regen_identical)
    here = os.path.dirname(os.path.dirname(os.path.abspath(__file__)))
    rc = 0
    for prop in ("C13", "C20", "C10", "C19"):
        p = subprocess.run([sys.executable, os.path.join(here, "vcheck"), prop, "--tier", "quick"],
                           cwd=here, capture_output=True, text=True, env=dict(os.environ, VERIF_SETUP="1"))
        C.log("warm", prop, "rc", p.returncode)
    return 0
