# E4 cfgmatrix (C19): every feature-switch combination builds, runs and behaves the same on a
# feature-neutral program; the shipped single header is what tools/join.py produces.

import hashlib
import os
import random
import shutil
import subprocess

from . import common as C

SWITCHES = ["FFSM2_ENABLE_PLANS", "FFSM2_ENABLE_SERIALIZATION", "FFSM2_ENABLE_TRANSITION_HISTORY",
            "FFSM2_ENABLE_LOG_INTERFACE", "FFSM2_ENABLE_VERBOSE_DEBUG_LOG", "FFSM2_ENABLE_STRUCTURE_REPORT",
            "FFSM2_ENABLE_DEBUG_STATE_TYPE", "FFSM2_DISABLE_TYPEINDEX"]
SHORT = [s.replace("FFSM2_ENABLE_", "").replace("FFSM2_", "") for s in SWITCHES]
STDS = ["c++11", "c++14", "c++17", "c++20"]
CXXS = ["g++", "clang++"]


# scenario variants: the program uses nothing optional / uses exactly one optional feature (whose switch must be on)
USES = [("none", None, None), ("plans", 0, "SCN_USE_PLANS"), ("serialization", 1, "SCN_USE_SERIALIZATION"),
        ("history", 2, "SCN_USE_HISTORY"), ("log", 3, "SCN_USE_LOG")]


def subset_name(mask):
    if mask == "ALL":
        return "ENABLE_ALL"
    names = [SHORT[i] for i in range(8) if mask >> i & 1]
    return "+".join(names) if names else "none"


def defines(mask):
    if mask == "ALL":
        return ["-DFFSM2_ENABLE_ALL"]
    return ["-D" + SWITCHES[i] for i in range(8) if mask >> i & 1]


def run(prop, tier, seed, verdict, tree):
    workdir = os.path.join(tree.dir, "cfg-%d" % os.getpid())
    shutil.rmtree(workdir, ignore_errors=True)
    os.makedirs(workdir)
    headers = [("shipped", os.path.join(C.REPO, "include"), "ffsm2/machine.hpp"),
               ("development", os.path.join(C.REPO, "development"), "ffsm2/machine_dev.hpp")]
    masks = list(range(256)) + ["ALL"]

    def has(mask, bit):
        if bit is None:
            return True
        if mask == "ALL":
            return bit in (0, 1, 2)          # FFSM2_ENABLE_ALL turns on plans, serialization, history (not logging)
        return bool(mask >> bit & 1) or (bit == 3 and bool(mask >> 4 & 1))   # verbose implies the log interface

    configs = []
    rng = random.Random(seed)
    if tier == "thorough":
        for use in USES:
            for h in headers:
                for cxx in CXXS:
                    for std in STDS:
                        for m in masks:
                            if has(m, use[1]):
                                configs.append((m, std, cxx, h, use))
        exhaustive = True
    else:
        base = USES[0]
        for m in masks:
            configs.append((m, "c++11", "g++", headers[0], base))
        rest = [(m, std, cxx, h, base) for h in headers for cxx in CXXS for std in STDS for m in masks
                if not (std == "c++11" and cxx == "g++" and h is headers[0])]
        corners = [(m, std, cxx, h, base) for h in headers for cxx in CXXS for std in ("c++11", "c++20") for m in (0, 255, "ALL")
                   if not (std == "c++11" and cxx == "g++" and h is headers[0])]
        configs += corners + rng.sample(rest, 64)
        # programs that use one optional feature: reference (only that switch), everything on, and a seeded sample
        for use in USES[1:]:
            elig = [m for m in masks if has(m, use[1])]
            only = 1 << use[1]
            singles = [only | (1 << j) for j in range(8) if j != use[1]]     # the feature used + exactly one other switch
            pick = [only, 255] + (["ALL"] if has("ALL", use[1]) else []) + singles + \
                rng.sample([m for m in elig if m not in (only, 255, "ALL") and m not in singles], 22)
            for m in pick:
                configs.append((m, "c++11", "g++", headers[0], use))
            for m in rng.sample(elig, 6):
                configs.append((m, rng.choice(STDS), "clang++", rng.choice(headers), use))
        exhaustive = False
    seen = set()
    uniq = []
    for c in configs:
        k = (c[0], c[1], c[2], c[3][0], c[4][0])
        if k not in seen:
            seen.add(k)
            uniq.append(c)
    configs = uniq

    src = os.path.join(C.HARNESS, "cfgscenario.cpp")

    def one(idx_cfg):
        idx, (m, std, cxx, h, use) = idx_cfg
        exe = os.path.join(workdir, "s%d" % idx)
        cmd = [cxx, "-std=" + std, "-O0", "-w", "-I" + h[1], '-DVERIF_FFSM2_HEADER="%s"' % h[2]] + defines(m) + \
              (["-D" + use[2]] if use[2] else []) + [src, "-o", exe]
        p = subprocess.run(cmd, capture_output=True, text=True, errors="replace")
        if p.returncode != 0:
            err = next((l for l in p.stderr.splitlines() if "error" in l), p.stderr[-300:])
            return (m, std, cxx, h[0], "compile-error", err[:300], use[0])
        out = b""
        try:
            # the scenario is run with four seeds (different guard/transition sequences)
            for sseed in (0, 1 + seed % 1000, 2 + seed % 1000, 3 + seed % 1000):
                r = subprocess.run([exe, str(sseed)], capture_output=True, timeout=120)
                if r.returncode != 0:
                    return (m, std, cxx, h[0], "run-rc=%d" % r.returncode, r.stderr.decode("utf-8", "replace")[-300:], use[0])
                out += r.stdout
        except subprocess.TimeoutExpired:
            return (m, std, cxx, h[0], "timeout", "", use[0])
        finally:
            try:
                os.unlink(exe)
            except OSError:
                pass
        last = out.strip().splitlines()[-1].decode("utf-8", "replace") if out.strip() else ""
        return (m, std, cxx, h[0], "ok", hashlib.sha256(out).hexdigest()[:16] + " " + last, use[0])

    results = C.parallel(one, list(enumerate(configs)))
    shutil.rmtree(workdir, ignore_errors=True)

    ok = [r for r in results if r[4] == "ok"]
    bad_compile = [r for r in results if r[4] == "compile-error"]
    bad_run = [r for r in results if r[4] not in ("ok", "compile-error")]

    def as_set(m):
        return frozenset(range(8)) | {"ALL"} if m == "ALL" else frozenset(i for i in range(8) if m >> i & 1)

    def minimal_sets(rs):
        sets = {}
        for r in rs:
            if r[0] == "ALL":
                continue
            sets.setdefault(as_set(r[0]), []).append(r)
        mins = [s for s in sets if not any(o < s for o in sets)]
        return [(s, sets[s]) for s in mins]

    # 1. every configuration builds
    for s, rs in minimal_sets(bad_compile):
        name = "+".join(SHORT[i] for i in sorted(s)) or "none"
        dims = sorted(set("%s/%s/%s" % (r[2], r[1], r[3]) for r in rs))
        n_all = sum(1 for r in bad_compile if r[0] != "ALL" and s <= as_set(r[0]))
        verdict.violation("does-not-compile|" + name,
                          "switch combination %s (and %d supersets tried) is rejected by the compiler [%s]: %s"
                          % (name, n_all - len(rs), ", ".join(dims[:6]), rs[0][5]))
    if any(r[0] == "ALL" for r in bad_compile) and not any(r[0] != "ALL" for r in bad_compile):
        r = [r for r in bad_compile if r[0] == "ALL"][0]
        verdict.violation("does-not-compile|ENABLE_ALL", "FFSM2_ENABLE_ALL does not compile: %s" % r[5])
    for r in bad_run:
        verdict.violation("scenario-crashed|%s|%s" % (subset_name(r[0]), r[4]),
                          "scenario built with %s %s %s [%s] ended with %s: %s" % (subset_name(r[0]), r[1], r[2], r[3], r[4], r[5]))

    # 2. same observable behaviour everywhere (within each scenario variant)
    digests = {}
    ref = None
    for use in USES:
        grp = [r for r in ok if r[6] == use[0]]
        if not grp:
            continue
        only = 0 if use[1] is None else 1 << use[1]
        gref = next((r for r in grp if r[0] == only and r[1] == "c++11" and r[2] == "g++" and r[3] == "shipped"), grp[0])
        if use[1] is None:
            ref = gref
        for r in grp:
            digests.setdefault((use[0], r[5]), []).append(r)
        differ = [r for r in grp if r[5] != gref[5]]
        for r in [r for r in differ if r[0] == gref[0]][:4]:
            verdict.violation("trace-differs|%s|%s|%s|%s|%s" % (subset_name(r[0]), r[2], r[1], r[3], use[0]),
                              "the same switch set %s built with %s %s [%s header] behaves differently from the reference build (scenario using: %s): %s vs %s"
                              % (subset_name(r[0]), r[2], r[1], r[3], use[0], r[5], gref[5]))
        extra = [(as_set(r[0]) - as_set(gref[0]), r) for r in differ if r[0] != gref[0] and r[0] != "ALL"]
        sets = {}
        for sset, r in extra:
            sets.setdefault(frozenset(sset), []).append(r)
        mins = [x for x in sets if not any(o < x for o in sets)]
        for x in mins:
            rs = sets[x]
            name = "+".join(SHORT[i] for i in sorted(x)) or "none"
            verdict.violation("trace-differs|%s|uses=%s" % (name, use[0]),
                              "enabling %s changes the observable trace of a program that does not use it (the program uses: %s; %s %s [%s]): %s vs reference %s"
                              % (name, use[0], rs[0][2], rs[0][1], rs[0][3], rs[0][5], gref[5]))
        for r in [r for r in differ if r[0] == "ALL"][:1]:
            if not mins:
                verdict.violation("trace-differs|ENABLE_ALL|uses=%s" % use[0], "FFSM2_ENABLE_ALL changes the trace of the %s-using scenario: %s vs %s" % (use[0], r[5], gref[5]))

    # 3. the shipped header is the amalgamation of the sources
    if not tree.regen_ok:
        verdict.violation("join.py-failed", tree.regen_msg)
    elif not tree.regen_identical:
        verdict.violation("amalgam-differs-from-join.py-output",
                          "include/ffsm2/machine.hpp is not what tools/join.py produces from development/: " + tree.regen_msg)

    cov = verdict.coverage
    cov["evaluations"] = len(results)
    cov["distinct_nontrivial"] = len(set((r[0], r[1], r[2], r[3], r[6]) for r in ok if r[0] != 0))
    cov["rule"] = ("a case = compile and run harness/cfgscenario.cpp (base API only, automatic + manual machine, payload + "
                   "payload-free, ~17k trace lines per seed, four scenario seeds) under one (switch subset, -std, compiler, header variant); compared: compiler "
                   "exit status and sha256 of the complete output; non-trivial = built, ran and at least one feature switch on; "
                   "distinct by configuration tuple. Besides the feature-free program, four variants of the scenario each USE one optional feature (plans / serialization / history / logging) and are compared across the combinations of the other switches. Plus byte comparison of join.py output with the shipped header.")
    cov["exhaustive"] = exhaustive
    cov["builds"] = len(results)
    cov["built_and_ran"] = len(ok)
    cov["compile_failures"] = len(bad_compile)
    cov["distinct_digests"] = len(digests)
    cov["reference_digest"] = ref[5] if ref else None
    cov["switch_subsets"] = len(set(r[0] for r in results))
    cov["standards"] = sorted(set(r[1] for r in results))
    cov["compilers"] = sorted(set(r[2] for r in results))
    cov["header_variants"] = sorted(set(r[3] for r in results))
    cov["scenario_variants"] = sorted(set(r[6] for r in results))
    cov["samples"] = [{"switches": subset_name(r[0]), "std": r[1], "cxx": r[2], "header": r[3], "uses": r[6], "result": r[4], "digest": r[5]}
                      for r in (results[:2] + results[len(results) // 2:len(results) // 2 + 2] + results[-2:])]
