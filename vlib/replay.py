# ./vcheck --replay <file>: re-run one recorded fsmmon case against /repo's current tree
import os
import sys

from . import common as C
from . import fsm


def run(path):
    name = None
    with open(path) as fh:
        for line in fh:
            if line.startswith("cfgname "):
                name = line.split()[1]
                break
            if line.startswith("trace:"):
                break
    if name is None:
        print(open(path).read()[:4000])
        print("(not an fsmmon replay file: the violation text above is the witness)")
        return 0
    pool = fsm.CONFIGS + fsm.ENUM_CONFIGS + fsm.BARE_CONFIGS + [v for b in fsm.DIFF_BASES for v in fsm.log_variants(b)]
    c = next((x for x in pool if x["name"] == name), None)
    if c is None:
        print("HARNESS-ERROR: unknown configuration %s" % name)
        return C.EXIT_HARNESS
    tree = C.Tree()
    verdict = C.Verdict("REPLAY", "quick", 0)
    r = fsm.Runner("ALL", "quick", 0, verdict, tree)
    built = r.build_many([c], tree.header_variants()[0])
    if not built:
        print("HARNESS-ERROR: build failed")
        return C.EXIT_HARNESS
    res = C.run_monitor([built[0][1].path, "--prop", "ALL", "--replay", path, "--out", verdict.outdir, "--cfgname", name], timeout=600)
    for v in res.viols:
        print("VIOLATION property=%s replay=%s\n  key: %s\n  %s" % (v.get("prop"), path, v.get("key"), v.get("msg", "")[:3000]))
    if not res.viols:
        print("replay of %s: no violation on the current tree (rc=%s)" % (path, res.rc))
    return 1 if res.viols else 0
