# Shared driver code for the /verif runtime-monitoring checks.
#
# Everything here is plumbing: hashing the repository working tree, building
# monitor binaries into a content-addressed cache, running them under a
# watchdog, routing violation keys through known_findings.json, and writing
# evidence files.  No property is decided here; the oracles live in the C++
# monitors under harness/ (and in cfgmatrix.py for C19).

import concurrent.futures as cf
import hashlib
import json
import os
import shutil
import subprocess
import sys
import time

VERIF = os.path.dirname(os.path.dirname(os.path.abspath(__file__)))
REPO = os.environ.get("VERIF_REPO", "/repo")
# the three directories can be redirected (used when the checks are pointed at a scratch copy of the
# repository to validate the monitors against seeded defects, so that /verif/evidence is not touched)
BUILD_ROOT = os.environ.get("VERIF_BUILD_DIR", os.path.join(VERIF, "build"))
OUT_ROOT = os.environ.get("VERIF_OUT_DIR", os.path.join(VERIF, "out"))
EVIDENCE_DIR = os.environ.get("VERIF_EVIDENCE_DIR", os.path.join(VERIF, "evidence"))
HARNESS = os.path.join(VERIF, "harness")
FINDINGS = os.path.join(VERIF, "known_findings.json")
NCPU = max(1, min(16, os.cpu_count() or 1))

EXIT_OK, EXIT_VIOLATION, EXIT_HARNESS = 0, 1, 2


class HarnessError(Exception):
    pass


def log(*a):
    print("[vcheck]", *a, file=sys.stderr, flush=True)


# --------------------------------------------------------------------------
# repository tree hash and regenerated amalgamation

def _tree_files():
    files = [os.path.join(REPO, "include/ffsm2/machine.hpp"),
             os.path.join(REPO, "tools/join.py")]
    for root, dirs, names in os.walk(os.path.join(REPO, "development")):
        dirs.sort()
        for n in sorted(names):
            files.append(os.path.join(root, n))
    return files


def tree_hash():
    h = hashlib.sha256()
    for f in _tree_files():
        h.update(os.path.relpath(f, REPO).encode() + b"\0")
        try:
            with open(f, "rb") as fh:
                h.update(fh.read())
        except OSError:
            h.update(b"<missing>")
        h.update(b"\0")
    return h.hexdigest()[:16]


class Tree:
    """The state of /repo for one check run."""

    def __init__(self):
        self.hash = tree_hash()
        self.dir = os.path.join(BUILD_ROOT, self.hash)
        os.makedirs(self.dir, exist_ok=True)
        self._prune()
        self.shipped_inc = os.path.join(REPO, "include")
        self.dev_inc = None
        self.regen_ok = None
        self.regen_identical = None
        self.regen_msg = ""
        self._regen()

    def _prune(self):
        # keep the current tree and the most recently used other one
        try:
            others = [d for d in os.listdir(BUILD_ROOT)
                      if d != self.hash and os.path.isdir(os.path.join(BUILD_ROOT, d))]
        except OSError:
            return
        others.sort(key=lambda d: os.path.getmtime(os.path.join(BUILD_ROOT, d)), reverse=True)
        for d in others[1:]:
            shutil.rmtree(os.path.join(BUILD_ROOT, d), ignore_errors=True)
        try:
            os.utime(self.dir, None)
        except OSError:
            pass

    def _regen(self):
        """Run the repository's own tools/join.py on a copy, compare with the shipped header."""
        rd = os.path.join(self.dir, "regen")
        stamp = os.path.join(rd, "STAMP.json")
        if os.path.exists(stamp):
            with open(stamp) as fh:
                st = json.load(fh)
            self.regen_ok, self.regen_identical, self.regen_msg = st["ok"], st["identical"], st["msg"]
            self.dev_inc = os.path.join(rd, "development")
            return
        tmp = rd + ".tmp%d" % os.getpid()
        shutil.rmtree(tmp, ignore_errors=True)
        os.makedirs(os.path.join(tmp, "include/ffsm2"))
        shutil.copytree(os.path.join(REPO, "development"), os.path.join(tmp, "development"))
        shutil.copytree(os.path.join(REPO, "tools"), os.path.join(tmp, "tools"))
        p = subprocess.run([sys.executable, "join.py"], cwd=os.path.join(tmp, "tools"),
                           capture_output=True, text=True)
        ok = p.returncode == 0
        identical = False
        msg = ""
        if ok:
            with open(os.path.join(tmp, "include/ffsm2/machine.hpp"), "rb") as fh:
                regen = fh.read()
            with open(os.path.join(REPO, "include/ffsm2/machine.hpp"), "rb") as fh:
                shipped = fh.read()
            identical = regen == shipped
            if not identical:
                rl, sl = regen.split(b"\n"), shipped.split(b"\n")
                for i, (a, b) in enumerate(zip(rl, sl)):
                    if a != b:
                        msg = "first difference at line %d: regenerated=%r shipped=%r" % (
                            i + 1, a[:120].decode("utf-8", "replace"), b[:120].decode("utf-8", "replace"))
                        break
                else:
                    msg = "length differs: regenerated %d lines, shipped %d lines" % (len(rl), len(sl))
        else:
            msg = "join.py failed: " + (p.stderr or p.stdout)[-400:]
        with open(os.path.join(tmp, "STAMP.json"), "w") as fh:
            json.dump({"ok": ok, "identical": identical, "msg": msg}, fh)
        shutil.rmtree(rd, ignore_errors=True)
        try:
            os.rename(tmp, rd)
        except OSError:
            shutil.rmtree(tmp, ignore_errors=True)
        self.regen_ok, self.regen_identical, self.regen_msg = ok, identical, msg
        self.dev_inc = os.path.join(rd, "development")

    def header_variants(self):
        """[(name, include_dir, header)] — the development header is added only when it
        differs from the shipped one (otherwise it is the same code by construction)."""
        v = [("shipped", self.shipped_inc, "ffsm2/machine.hpp")]
        if self.regen_ok and not self.regen_identical:
            v.append(("development", self.dev_inc, "ffsm2/machine_dev.hpp"))
        return v


# --------------------------------------------------------------------------
# building

def _file_digest(paths):
    h = hashlib.sha256()
    for p in paths:
        with open(p, "rb") as fh:
            h.update(fh.read())
        h.update(b"\0")
    return h.hexdigest()


_HARNESS_DIGEST = None


def harness_digest():
    global _HARNESS_DIGEST
    if _HARNESS_DIGEST is None:
        files = sorted(os.path.join(HARNESS, f) for f in os.listdir(HARNESS)
                       if f.endswith((".hpp", ".cpp", ".h")))
        _HARNESS_DIGEST = _file_digest(files)
    return _HARNESS_DIGEST


class BuildResult:
    def __init__(self, ok, path, log_text, cmd, secs, cached):
        self.ok, self.path, self.log, self.cmd, self.secs, self.cached = ok, path, log_text, cmd, secs, cached


def build(tree, src, flags, variant=None, cxx="g++", std="c++17", name=None, extra_src=(), link=()):
    """Compile harness/<src> against the given header variant; cached by content."""
    variant = variant or tree.header_variants()[0]
    vname, inc, header = variant
    cmd = [cxx, "-std=" + std, "-I" + inc, "-I" + HARNESS,
           '-DVERIF_FFSM2_HEADER="%s"' % header] + list(flags) + \
          [os.path.join(HARNESS, src)] + [os.path.join(HARNESS, s) for s in extra_src] + list(link)
    key = hashlib.sha256(("\0".join(cmd) + harness_digest()).encode()).hexdigest()[:20]
    bdir = os.path.join(tree.dir, "bin")
    os.makedirs(bdir, exist_ok=True)
    base = (name or os.path.splitext(src)[0]) + "-" + vname + "-" + key
    out = os.path.join(bdir, base)
    logf = out + ".log"
    if os.path.exists(out + ".ok"):
        return BuildResult(True, out, "", cmd, 0.0, True)
    if os.path.exists(out + ".fail"):
        with open(logf, errors="replace") as fh:
            return BuildResult(False, out, fh.read(), cmd, 0.0, True)
    t0 = time.time()
    tmp = out + ".tmp%d" % os.getpid()
    p = subprocess.run(cmd + ["-o", tmp], capture_output=True, text=True, errors="replace")
    secs = time.time() - t0
    text = p.stdout + p.stderr
    with open(logf, "w") as fh:
        fh.write(" ".join(cmd) + "\n" + text)
    if p.returncode == 0 and os.path.exists(tmp):
        os.rename(tmp, out)
        open(out + ".ok", "w").close()
        return BuildResult(True, out, text, cmd, secs, False)
    if os.path.exists(tmp):
        os.unlink(tmp)
    open(out + ".fail", "w").close()
    return BuildResult(False, out, text, cmd, secs, False)


def parallel(fn, items, workers=NCPU):
    """Run fn over items on a thread pool (the work is in subprocesses)."""
    items = list(items)
    if not items:
        return []
    with cf.ThreadPoolExecutor(max_workers=workers) as ex:
        return list(ex.map(fn, items))


# --------------------------------------------------------------------------
# running monitor binaries

class RunResult:
    def __init__(self):
        self.rc = None
        self.timed_out = False
        self.viols = []      # dicts: {prop,key,msg,replay}
        self.stats = {}      # merged @STAT objects
        self.samples = []
        self.raw_tail = ""
        self.secs = 0.0
        self.cmd = None
        self.stderr_tail = ""


def run_monitor(cmd, timeout, env=None, cwd=None):
    """Run one monitor process.  Protocol on stdout: lines '@VIOL {json}', '@STAT {json}',
    '@SAMPLE {json}'.  Exit 0 = ran to completion (violations are in @VIOL lines);
    anything else (signal, sanitizer abort) is reported by the caller as a violation
    key of its own or as a harness failure, depending on the check."""
    r = RunResult()
    r.cmd = cmd
    e = dict(os.environ)
    if env:
        e.update(env)
    t0 = time.time()
    try:
        p = subprocess.run(cmd, capture_output=True, timeout=timeout, env=e, cwd=cwd)
        r.rc = p.returncode
        out, err = p.stdout, p.stderr
    except subprocess.TimeoutExpired as ex:
        r.timed_out = True
        out, err = ex.stdout or b"", ex.stderr or b""
    r.secs = time.time() - t0
    out = out.decode("utf-8", "replace")
    err = err.decode("utf-8", "replace")
    r.stderr_tail = err if len(err) <= 12000 else err[:8000] + "\n[...]\n" + err[-4000:]
    r.raw_tail = out[-2000:]
    for line in out.splitlines():
        if line.startswith("@VIOL "):
            try:
                r.viols.append(json.loads(line[6:]))
            except ValueError:
                r.viols.append({"prop": "?", "key": "unparsable-violation-line", "msg": line[:300]})
        elif line.startswith("@STAT "):
            try:
                merge_stats(r.stats, json.loads(line[6:]))
            except ValueError:
                pass
        elif line.startswith("@SAMPLE "):
            try:
                r.samples.append(json.loads(line[8:]))
            except ValueError:
                pass
    return r


def merge_stats(dst, src):
    """Sum numbers, merge dicts, union lists (order-preserving, de-duplicated, capped)."""
    for k, v in src.items():
        if isinstance(v, bool):
            dst[k] = dst.get(k, True) and v if k.startswith("all_") else (dst.get(k, False) or v)
        elif isinstance(v, (int, float)):
            if k.startswith("max_"):
                dst[k] = max(dst.get(k, v), v)
            elif k.startswith("min_"):
                dst[k] = min(dst.get(k, v), v)
            else:
                dst[k] = dst.get(k, 0) + v
        elif isinstance(v, dict):
            merge_stats(dst.setdefault(k, {}), v)
        elif isinstance(v, list):
            cur = dst.setdefault(k, [])
            for x in v:
                if x not in cur and len(cur) < 4096:
                    cur.append(x)
        else:
            dst[k] = v
    return dst


# --------------------------------------------------------------------------
# known findings

def load_findings():
    if not os.path.exists(FINDINGS):
        return []
    with open(FINDINGS) as fh:
        return json.load(fh).get("findings", [])


def match_open_finding(findings, prop, key):
    for f in findings:
        if f.get("status") == "open" and f.get("property") == prop and f.get("key") == key:
            return f
    return None


# --------------------------------------------------------------------------
# verdict + evidence

class Verdict:
    def __init__(self, prop, tier, seed, level="exploration"):
        self.prop, self.tier, self.seed, self.level = prop, tier, seed, level
        self.t0 = time.time()
        self.viols = []          # unlisted
        self.known = {}          # key -> (finding, count)
        self.harness_errors = []
        self.coverage = {}
        self.assumptions = []
        self.findings = load_findings()
        self.outdir = os.path.join(OUT_ROOT, "%s-%s-%d" % (prop, tier, seed))
        shutil.rmtree(self.outdir, ignore_errors=True)
        os.makedirs(self.outdir, exist_ok=True)

    def violation(self, key, msg, replay=None, prop=None):
        prop = prop or self.prop
        if prop != self.prop:
            return
        f = match_open_finding(self.findings, prop, key)
        if f is not None:
            cur = self.known.get(key)
            self.known[key] = (f, (cur[1] if cur else 0) + 1)
            return
        if replay is None:
            replay = os.path.join(self.outdir, "violation-%d.txt" % (len(self.viols) + 1))
            with open(replay, "w") as fh:
                fh.write("property=%s\nkey=%s\n%s\n" % (prop, key, msg))
        self.viols.append({"key": key, "msg": msg, "replay": replay})

    def harness_error(self, msg):
        self.harness_errors.append(msg)

    def finish(self):
        wall = time.time() - self.t0
        cov = self.coverage
        cov.setdefault("evaluations", 0)
        cov.setdefault("distinct_nontrivial", 0)
        cov.setdefault("rule", "")
        cov.setdefault("samples", [])
        cov["known_findings_hit"] = sorted(self.known.keys())
        cov["violation_keys"] = sorted(set(v["key"] for v in self.viols))[:50]
        ev = {
            "property_id": self.prop, "tier": self.tier, "seed": self.seed, "level": self.level,
            "coverage": cov, "assumptions": self.assumptions, "wall_s": round(wall, 2),
            "violations": len(self.viols),
        }
        if self.harness_errors:
            ev["coverage"]["harness_errors"] = self.harness_errors[:20]
        os.makedirs(EVIDENCE_DIR, exist_ok=True)
        tmp = os.path.join(EVIDENCE_DIR, "%s.json.tmp%d" % (self.prop, os.getpid()))
        with open(tmp, "w") as fh:
            json.dump(ev, fh, indent=1, sort_keys=False)
            fh.write("\n")
        os.replace(tmp, os.path.join(EVIDENCE_DIR, "%s.json" % self.prop))
        for key, (f, n) in sorted(self.known.items()):
            print("KNOWN-FINDING: property=%s %s (key=%s, seen %d times)" % (
                self.prop, f.get("what", ""), key, n))
        seen = set()
        for v in self.viols:
            if v["key"] in seen:
                continue
            seen.add(v["key"])
            print("VIOLATION property=%s replay=%s" % (self.prop, v["replay"]))
            print("  key: %s" % v["key"])
            print("  %s" % v["msg"].replace("\n", "\n  ")[:1500])
        if self.viols:
            return EXIT_VIOLATION
        if self.harness_errors:
            for m in self.harness_errors[:10]:
                print("HARNESS-ERROR: %s" % m)
            return EXIT_HARNESS
        ok_nontrivial = cov["evaluations"] >= 1 and cov["distinct_nontrivial"] >= 2
        if not ok_nontrivial:
            print("INCONCLUSIVE: the run observed too little (evaluations=%s distinct_nontrivial=%s)" % (
                cov["evaluations"], cov["distinct_nontrivial"]))
            return EXIT_HARNESS
        print("OK property=%s tier=%s seed=%d evaluations=%d distinct_nontrivial=%d wall=%.1fs" % (
            self.prop, self.tier, self.seed, cov["evaluations"], cov["distinct_nontrivial"], wall))
        return EXIT_OK


def seed_from_env():
    try:
        return int(os.environ.get("VERIF_SEED", "1")) & 0x7fffffff
    except ValueError:
        return 1
