# E3 driver: one widemon binary per machine size (C14, and the all-pairs part of C12)

import os
import shutil
import struct

from . import common as C

QUICK_SIZES = [1, 2, 3, 4, 5, 7, 8, 9, 15, 16, 17, 31, 32, 33, 63, 64, 65, 127, 128, 129, 254, 255]
QUICK_HEAD = {1, 3, 5, 8, 16, 33, 64, 129, 255}


QUICK_AUTO = [(2, 0), (9, 1), (64, 0), (127, 1), (128, 0), (129, 1), (200, 0), (255, 0)]


def sizes_for(tier, prop=None):
    """(N, root head, automatic activation)"""
    if tier == "thorough":
        out = [(n, 0, 0) for n in range(1, 256)] + [(n, 1, 0) for n in range(1, 256, 2)]
        auto = [(n, n % 2, 1) for n in list(range(1, 20)) + list(range(120, 140)) + list(range(240, 256)) + [33, 64, 65, 100, 200]]
    else:
        out = [(n, 0, 0) for n in QUICK_SIZES] + [(n, 1, 0) for n in sorted(QUICK_HEAD)]
        auto = [(n, h, 1) for n, h in QUICK_AUTO]
    if prop != "C14":      # the automatically activated twins run the serialization passes only
        out += auto
    out.sort(key=lambda t: -t[0])   # longest compiles first
    return out


def run(prop, tier, seed, verdict, tree, own_evidence=True):
    stats = {}
    sigs = set()
    samples = []
    sizes = sizes_for(tier, prop)
    keep = tier == "quick"
    for variant in tree.header_variants():
        def one(nh):
            n, h, auto = nh
            b = C.build(tree, "widemon.cpp", ["-O0", "-DWIDE_N=%d" % n, "-DWIDE_HEAD=%d" % h] + (["-DWIDE_AUTO=1", "-Wno-unused-function"] if auto else []), variant=variant,
                        name="widemon-%d-%d%s" % (n, h, "-auto" if auto else ""))
            if not b.ok:
                return (n, h), b, None, None
            sig = os.path.join(verdict.outdir, "wsig-%s-%d-%d-%d.bin" % (variant[0], n, h, auto))
            r = C.run_monitor([b.path, "--prop", prop, "--tier", tier, "--seed", str(seed), "--sigfile", sig], timeout=1800)
            if not keep:
                # thorough: hundreds of large binaries - do not cache them
                for suffix in ("", ".ok", ".log"):
                    try:
                        os.unlink(b.path + suffix)
                    except OSError:
                        pass
            return (n, h), b, r, sig

        for (n, h), b, r, sig in C.parallel(one, sizes):
            if not b.ok:
                first_err = next((l for l in b.log.splitlines() if "error" in l), b.log[-400:])
                key = "static-assert|" if "static assertion" in b.log or "static_assert" in b.log else "does-not-build|"
                verdict.violation(key + ("ids-or-root-id" if key.startswith("static") else "N=%d" % n),
                                  "a machine with %d states (%s) is rejected by the compiler: %s" % (n, "root head" if h else "headless", first_err[:500]),
                                  prop="C14" if key.startswith("static") else prop)
                continue
            if r.timed_out:
                verdict.harness_error("widemon N=%d timed out (inconclusive)" % n)
                continue
            if r.rc != 0:
                verdict.violation("monitor-process-died|N=%d|rc=%s" % (n, r.rc), "widemon N=%d head=%d ended rc=%s: %s" % (n, h, r.rc, r.stderr_tail[-600:]))
            for v in r.viols:
                verdict.violation(v["key"], v.get("msg", ""), prop=v.get("prop"))
            C.merge_stats(stats, r.stats)
            try:
                with open(sig, "rb") as fh:
                    data = fh.read()
                sigs.update(struct.unpack("<%dQ" % (len(data) // 8), data[:len(data) // 8 * 8]))
                os.unlink(sig)
            except OSError:
                pass
            if len(samples) < 3:
                samples.extend(r.samples[:1])
    cov = verdict.coverage
    if prop == "C14":
        n_eval = int(stats.get("dispatch_checks", 0)) + int(stats.get("replay_dispatch_checks", 0))
    elif prop == "C13":
        n_eval = int(stats.get("index_round_trips", 0))
    else:
        n_eval = int(stats.get("load_pairs_checked", 0))
    cov["evaluations"] = int(cov.get("evaluations", 0)) + n_eval
    cov["distinct_nontrivial"] = int(cov.get("distinct_nontrivial", 0)) + len(sigs)
    cov["samples"] = (cov.get("samples") or []) + samples
    cov["sizes"] = sorted(stats.get("sizes", {}).keys(), key=lambda s: (int("".join(ch for ch in s if ch.isdigit())), s))
    for k, v in stats.items():
        if isinstance(v, (int, float)):
            cov["wide_" + k] = v
    if prop == "C14":
        cov["rule"] = ("a case = one (N, root kind, from-state, k) dispatch check on a machine with N states: changeTo(k)+update(), react, query, immediate self "
                       "transition and replayTransition(k); compared: the exact callback sequence (only the root, the previous state and state k), "
                       "control.stateId(), access<T>() object identity, activeStateId()/isActive(j) for all j; stateId<T>()==position is a static_assert "
                       "in every build; non-trivial/distinct = distinct (N, root kind, from, k)")
        cov["exhaustive"] = tier == "thorough"
        if tier == "thorough":
            cov["exhaustive_subspace"] = "every N in 1..255 (headless) and every odd N (root head), every k < N as destination in three visiting orders"
    elif prop == "C13":
        cov["rule"] = (cov.get("rule", "") + " widemon (last clause): a case = one (N, root kind, state index k): the machine with N states saves with k active "
                       "(the index is written with the width the machine derived from N) and another instance loads it; compared: the loaded index, "
                       "distinctness of the encodings of all indices, SerialBuffer::BIT_CAPACITY against N").strip()
        cov["wide_sizes_exhaustive"] = tier == "thorough"
    else:
        cov["rule"] = (cov.get("rule", "") + " widemon: a case = one (N, saver activity, loader activity) save/load pair incl. inactive machines; compared: "
                       "loader callback trace, resulting activity, canary bytes (four patterns, around the saver's and the loader's buffer), bits beyond capacity, canonical bytes; plus round trips through an exact-size heap buffer").strip()
        cov["wide_all_pairs_for"] = "every size" if tier == "thorough" else "N <= 33 (larger sizes: every saver activity x 16 loader states)"
    return stats


# ---------------------------------------------------------------------------
# E3b wideplan: the plan clauses on machines of every size (C08, C09, C10)

QUICK_PLAN = [(4, 0, 0), (8, 1, 2), (9, 0, 0), (17, 1, 20), (33, 0, 40), (64, 1, 0), (65, 0, 3), (127, 1, 0), (128, 0, 0),
              (129, 1, 254), (255, 0, 0), (255, 1, 1)]


def plan_sizes(tier, seed):
    if tier != "thorough":
        return sorted(QUICK_PLAN, key=lambda t: -t[0])
    import random
    rng = random.Random(seed)
    out = set(QUICK_PLAN)
    for n in range(4, 256):
        out.add((n, n % 3 == 0 and 1 or 0, 0))
        out.add((n, rng.randrange(2), rng.choice([1, 2, 3, max(1, n - 1), min(254, n + 1), 254, rng.randrange(1, 255)])))
    return sorted(out, key=lambda t: -t[0])


def run_plans(prop, tier, seed, verdict, tree):
    stats = {}
    sigs = set()
    samples = []
    sizes = plan_sizes(tier, seed)
    keep = tier == "quick"
    for variant in tree.header_variants():
        def one(t):
            n, h, cap = t
            b = C.build(tree, "wideplan.cpp", ["-O0", "-DWIDE_N=%d" % n, "-DWIDE_HEAD=%d" % h, "-DWIDE_CAP=%d" % cap], variant=variant,
                        name="wideplan-%d-%d-%d" % (n, h, cap))
            if not b.ok:
                return t, b, None, None
            sig = os.path.join(verdict.outdir, "wpsig-%s-%d-%d-%d.bin" % (variant[0], n, h, cap))
            r = C.run_monitor([b.path, "--prop", prop, "--tier", tier, "--seed", str(seed), "--sigfile", sig], timeout=1800)
            if not keep:
                for suffix in ("", ".ok", ".log"):
                    try:
                        os.unlink(b.path + suffix)
                    except OSError:
                        pass
            return t, b, r, sig

        for (n, h, cap), b, r, sig in C.parallel(one, sizes):
            if not b.ok:
                first_err = next((l for l in b.log.splitlines() if "error" in l), b.log[-400:])
                verdict.violation("does-not-build|plans|N=%d|capacity=%d" % (n, cap),
                                  "a machine with %d states and plans (capacity %s) is rejected by the compiler: %s" % (n, cap or "default", first_err[:500]))
                continue
            if r.timed_out:
                verdict.harness_error("wideplan N=%d timed out (inconclusive)" % n)
                continue
            if r.rc != 0:
                verdict.violation("monitor-process-died|wideplan|N=%d|rc=%s" % (n, r.rc), "wideplan N=%d head=%d cap=%d ended rc=%s: %s" % (n, h, cap, r.rc, r.stderr_tail[-600:]))
            for v in r.viols:
                verdict.violation(v["key"], v.get("msg", ""), prop=v.get("prop"))
            C.merge_stats(stats, r.stats)
            try:
                with open(sig, "rb") as fh:
                    data = fh.read()
                sigs.update(struct.unpack("<%dQ" % (len(data) // 8), data[:len(data) // 8 * 8]))
                os.unlink(sig)
            except OSError:
                pass
            if len(samples) < 2:
                samples.extend(r.samples[:1])
    cov = verdict.coverage
    n_eval = int(stats.get("appends", 0)) if prop == "C10" else int(stats.get("copies_compared", 0)) if prop == "C17" else int(stats.get("origins_checked", 0))
    cov["evaluations"] = int(cov.get("evaluations", 0)) + n_eval
    cov["distinct_nontrivial"] = int(cov.get("distinct_nontrivial", 0)) + len(sigs)
    cov["samples"] = (cov.get("samples") or []) + samples
    cov["wideplan_sizes"] = sorted(stats.get("sizes", {}).keys(), key=lambda s: int("".join(ch for ch in s.split("c")[0] if ch.isdigit())))
    for k, v in stats.items():
        if isinstance(v, (int, float)):
            cov["wideplan_" + k] = v
    cov["rule"] = (cov.get("rule", "") + " wideplan: machines of 4..255 states with plans (payload tasks, default and explicit capacities below/above the state "
                   "count); a case = one (N, root kind, capacity, origin state k): fill-to-capacity/iterator-removal/refill passes and, with every state k as the "
                   "active origin, the no-report / inactive-report / success (fire with payload and origin, once, in order) / failure (planFailed, plan "
                   "emptied, no fire) cycles; compared: callbacks with their transitions, active state, previousTransition, plan contents").strip()
    return stats
